"""C20 -- see DESIGN.md section 5.  Deductive targets are added below the bounded import."""
PROP = "C20"
LEVEL = 'other'
EXPLANATION = ('Deductive: Highlighter.highlighted_lines raises nothing for any source text (every error of the tokenizer - TokenError, SyntaxError and its subclasses - ends in the plain-lines fallback), code_snippet raises nothing either and returns a contiguous run of at most before+after+1 numbered entries that contains the entry of the failing line whenever it exists; line_numbers yields one entry per line; the frame filter of ExceptionTrace._render_trace (prefix contract, cut point after its first loop) hands the listing code exactly the frames of the trace that are not under the ignored path -- none whose file name matches the ignore pattern unless the verbosity is debug, and every other frame; IO.is_debug and Output.is_debug, which the frame filter reads, are verified (DEBUG exactly).  Bounded: generated source files / source-less code x messages x verbosity x UTF-8, debug-level frame snippets, highlighter corpus.')
LEVEL_NOTE = ('assumes: tokenize / crashtest are external (split_to_lines raises at most tokenize.TokenError, SyntaxError, IndentationError, TabError; FrameCollection as a ghost sequence with append, frame file names as ghost fields); re.match with the run-time ignore pattern is an uninterpreted predicate; the part of _render_trace after the filter loop (folding, snippets), highlighting and trace content are bounded only')
from . import trace_contracts as tcx
TARGETS = [tcx.H + "highlighted_lines", tcx.H + "line_numbers", tcx.H + "code_snippet", tcx.RENDER_TRACE_FILTER] + tcx.IS_DEBUG_TARGETS
from pyvc.contracts import REG as _R
_R.ext_hook = tcx._trace_ext_hook
LEMMAS = []
try:
    from .C20_bounded import bounded as _bounded_main, BOUNDED_RULE  # noqa: F401
    from .C20_extra import bounded_extra as _bounded_extra

    def bounded(ctx):
        _bounded_extra(ctx)
        _bounded_main(ctx)
    try:
        from .C20_bounded import replay_bounded  # noqa: F401
    except ImportError:
        pass
except ImportError:
    pass


def structural():
    """rendering a trace leaves the trace object as it was (one trace can be rendered to a log and to the console): no method
    of ExceptionTrace other than the constructor and ignore_files_in stores into the receiver - the class-level snippet
    cache aside"""
    from pyvc import frontend, structural as st
    P = frontend.Program()
    bad = []
    try:
        ci = P.module("clikit.ui.components.exception_trace").classes["ExceptionTrace"]
        for m, fn in sorted(ci.methods.items()):
            if m in ("__init__", "ignore_files_in"):
                continue
            bad += ["%s: %s" % (m, w) for w in st.self_writes(fn) if "_FRAME_SNIPPET_CACHE" not in w]
    except Exception as e:  # noqa
        bad.append("class not found: %r" % (e,))
    return [{
        "name": "C20.ExceptionTrace.frame.render_is_read_only", "kind": "frame",
        "text": "no method of ExceptionTrace other than __init__ and ignore_files_in stores into the trace object (the class-level "
                "snippet cache aside)",
        "status": "proved" if not bad else "failed", "note": "; ".join(bad[:6]),
    }]
