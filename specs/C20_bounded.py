"""C20 (bounded tier) -- error traces always render and show the real message and failing line.

Run-time checks on the real ExceptionTrace / Highlighter over generated inputs (E.traces of DESIGN.md
Appendix C).  Oracle, from the property statement:

* ExceptionTrace(e).render(io) succeeds at every verbosity, with and without UTF-8 / ANSI;
* full mode: the visible output (escape sequences stripped) contains the class name of the exception and,
  after it, the text of str(e) "style markup aside": every piece of the message between style tags
  (tags of the documented markup language: <name>, </name>, </>, <fg=..;bg=..;options=..> for the styles
  the default style set defines) appears, in order, line by line;
* simple mode: the visible output is just the message (markup aside);
* the code snippet under "at FILE:LINE in FUNCTION": line numbers consecutive, exactly one marked line and
  it is the failing line that Python's own traceback reports, and every shown line whose source line is
  made of single-line tokens only (Python's tokenize decides) is that source line verbatim, markup
  stripped, trailing blanks aside;
* a frame whose file matches the ignore pattern is not shown unless the verbosity is debug (then it is);
* Highlighter alone over a corpus of real files: no exception, line i of the output is source line i
  (one optional empty line after the last), code_snippet numbers consecutively and marks the asked line.

Not demanded (interpretation): which lines the snippet window contains beyond the failing line; the frame
numbering of the stack trace; the innermost frame is not expected to be hidden by the ignore pattern
(the cases keep the ignored file in the middle of the stack); backslash-escaped tags in messages.
"""
import io as _io
import json
import os
import random
import re
import shutil
import sys
import tempfile
import time
import tokenize

BOUNDED_RULE = (
    "cases = (generated source file(s) from 22 statement shapes x filler lines before/after (comments, blank, tabs, "
    "non-ASCII, balanced markup, multi-line strings / calls / continuation lines, f-strings) | source-less code (exec / "
    "compile with a fake or missing file, eval, file deleted / truncated after loading)) x exception class x message from a "
    "20-message adversarial set x cause chain x recursion depth {1,2,5,60}; modes = verbosity {0,1,2,4} x UTF-8 on/off x "
    "ANSI/plain x simple/full x ignore pattern; key = (hash of the files + call + message, mode); a case is non-trivial "
    "when the rendered exception has a source file (snippet clauses apply) or a non-empty message (content clause "
    "applies); the highlighter corpus check has one case per file, non-trivial when the file is not empty"
)

ANSI_RE = re.compile(r"\x1b\[[0-9;]*m")
KNOWN_STYLES = {"error", "info", "comment", "question", "b", "u", "c1", "c2"}
TAG_RE = re.compile(r"(?is)<(([a-z][a-z0-9,_=;-]*)|/([a-z][a-z0-9,_=;-]*)?)>")


def _is_style_tag(m):
    name = (m.group(2) or m.group(3) or "").lower()
    if m.group(0) == "</>":
        return True
    if name in KNOWN_STYLES:
        return True
    return bool(re.search(r"(fg|bg|options)=", name))


def split_markup(text):
    """pieces of `text` between style tags (documented markup language; unknown tags are text)"""
    out = []
    pos = 0
    for m in TAG_RE.finditer(text):
        if m.start() > 0 and text[m.start() - 1] == "\\":
            continue  # an escaped tag is text
        if _is_style_tag(m):
            out.append(text[pos:m.start()])
            pos = m.end()
    out.append(text[pos:])
    # the escape character itself is markup: shown or not, it is not part of the text
    return [p.replace("\\<", "<") for p in out]


def strip_markup(text):
    return "".join(split_markup(text))


def has_closing_tag(text):
    return any(_is_style_tag(m) and m.group(0).startswith("</") and m.group(0) != "</>" for m in TAG_RE.finditer(text))


# ------------------------------------------------------------------------------------------ inputs
class GenError(Exception):
    pass


class CodedError(Exception):
    code = 7


class ErreurSpéciale(Exception):
    pass


EXC = {c.__name__: c for c in (ValueError, KeyError, RuntimeError, GenError, CodedError, ErreurSpéciale)}

MESSAGES = [
    "Failed",
    "",
    "first line\nsecond line\n\nfourth line",
    "héllo ✓ 日本 — naïve",
    "<b>",
    "</info>",
    "<error>x",
    "a <b>bold</b> claim",
    "value</b> tail",
    "x < 3 > 1 and {braces} %s 100%",
    "<foo>unknown tag</foo>",
    "<fg=red;options=bold>inline</> style",
    "tab\there  and trailing blanks  ",
    "ends with newline\n",
    "very long " + "word " * 400 + "X" * 1500,
    "<info>multi\nline</info> tags",
    # escaped tags: one formatting pass turns them into real (unbalanced / invalid) ones
    "escaped \\</info> closing",
    "escaped \\<fg=nocolor>invalid style",
    "\\<error>open and \\</b> mismatched",
    # a message that ends in a backslash (a Windows directory): the character in front of the closing tag of the report
    "no such directory C:\\temp\\",
]

FILLERS = [
    "# a comment with é and <b>tags</b>",
    "",
    "X1 = 1",
    'T = "<info>x</info> and <b>y</b>"',
    'DOC = """first line\nsecond <b>line</b>\n"""',
    "Y = 1 + \\\n    2",
    "Z = [\n    1,\n    2,\n]",
    "if 1:\n\tTABBED = 'tab\\there'",
    'S = "héllo ✓ 日本"',
    'F = f"{len(chr(65))!r:>4} and {{braces}}"',
    "W = 1  \t # trailing blanks after the comment   ",
    "def helper(a, b=2, *c, **d):\n    return a if b else None",
    'M = f"""multi {1 + 1}\nline f-string"""',
    "N = {'k': [1.5, 0x1f, 1e3, 2j], 'self': None}  # numbers, builtins: len, print",
]


def _shape(name, body, entry="fail", raises=None, extra_args=(), module_level=False):
    return {"name": name, "body": body, "entry": entry, "raises": raises, "extra": list(extra_args), "module_level": module_level}


SHAPES = [
    _shape("plain", "def fail(exc, msg):\n    raise exc(msg)\n"),
    _shape("multi-line-raise", "def fail(exc, msg):\n    raise exc(\n        msg\n    )\n"),
    _shape("comment-markup-on-line", "def fail(exc, msg):\n    raise exc(msg)  # why: <b>bold</b> é ✓\n"),
    _shape("tab-indented", "def fail(exc, msg):\n\tif msg is not None:\n\t\traise exc(msg)\n\treturn 1\n"),
    _shape("between-multi-line-strings",
           'def fail(exc, msg):\n    """Doc line one\n    line two."""\n    raise exc(msg)\n    text = """never\n    reached"""\n    return text\n'),
    _shape("sub-expression", "def fail(exc, msg):\n    zero = 0\n    value = dict(\n        a=1,\n        b=1 // zero,\n    )\n    return value\n", raises="ZeroDivisionError"),
    _shape("leading-continuation-line", "\\\nLEAD = 1\n\n\ndef fail(exc, msg):\n    raise exc(msg)\n"),
    _shape("lone-continuation-line", "FIRST = 1\n\\\nSECOND = 2\n\n\ndef fail(exc, msg):\n    raise exc(msg)\n"),
    _shape("module-level", "raise EXC(MSG)\n", module_level=True),
    _shape("no-final-newline", "def fail(exc, msg):\n    x = 1\n    raise exc(msg)"),
    _shape("lambda-generator", "fail = lambda exc, msg: (_ for _ in ()).throw(exc(msg))\n"),
    _shape("method-non-ascii", "class Café:\n    def échec(self, exc, msg):\n        raise exc(msg)  # déjà vu\n\n\ndef fail(exc, msg):\n    return Café().échec(exc, msg)\n"),
    _shape("chained-explicit", "def fail(exc, msg):\n    try:\n        {}['k']\n    except KeyError as e:\n        raise exc(msg) from e\n"),
    _shape("chained-implicit", "def fail(exc, msg):\n    try:\n        int('x')\n    except ValueError:\n        try:\n            raise exc(msg)\n        finally:\n            pass\n"),
    _shape("cyclic-context", "def fail(exc, msg):\n    a = exc(msg)\n    b = KeyError('k')\n    a.__context__ = b\n    b.__context__ = a\n    raise a\n"),
    _shape("self-cause", "def fail(exc, msg):\n    a = exc(msg)\n    a.__cause__ = a\n    raise a\n"),
    _shape("context-chain-1500", "def fail(exc, msg):\n    a = exc(msg)\n    cur = a\n    for i in range(1500):\n        nxt = ValueError('level %d' % i)\n        cur.__context__ = nxt\n        cur = nxt\n    raise a\n"),
    _shape("multi-line-call-in-outer-frame", "def inner(exc, msg):\n    raise exc(msg)\n\n\ndef fail(exc, msg):\n    return inner(\n        exc,\n        msg,\n    )\n"),
    _shape("open-bracket-line-in-outer-frame", "def inner(exc, msg):\n    raise exc(msg)\n\n\ndef fail(exc, msg):\n    values = [\n        inner(exc, msg),\n        2,\n    ]\n    return values\n"),
    _shape("message-with-source-markup", "def fail(exc, msg):\n    raise exc(msg + ' <info>src</info>')\n"),
    _shape("long-line", "def fail(exc, msg):\n    raise exc(msg)  # " + "x" * 300 + "\n"),
    _shape("multi-line-string-on-failing-line", 'def fail(exc, msg):\n    raise exc(msg + """\n    tail""")\n'),
    _shape("closure", "def fail(exc, msg):\n    def inner():\n        raise exc(msg)\n    return inner()\n"),
    _shape("real-key-error", "def fail(exc, msg):\n    table = {'a': 1}\n    return table[msg]\n", raises="KeyError"),
    _shape("real-type-error", "def fail(exc, msg):\n    return len(5) + msg\n", raises="TypeError"),
    _shape("with-and-decorator", "import contextlib\n\n\n@contextlib.contextmanager\ndef ctx():\n    yield 1\n\n\ndef fail(exc, msg):\n    with ctx() as one:\n        raise exc(msg)\n"),
    _shape("recursive", "def fail(exc, msg, depth):\n    if depth <= 1:\n        raise exc(msg)\n    return fail(exc, msg, depth - 1)\n", extra_args=("DEPTH",)),
    _shape("mutual-recursion", "def fail(exc, msg, depth):\n    if depth <= 1:\n        raise exc(msg)\n    return other(exc, msg, depth)\n\n\ndef other(exc, msg, depth):\n    return fail(exc, msg, depth - 1)\n", extra_args=("DEPTH",)),
    _shape("opening-tag-only-in-source", 'OPEN = "<error>never closed"\n\n\ndef fail(exc, msg):\n    raise exc(msg)\n'),
    _shape("closing-tag-only-in-source", 'CLOSE = "</info> never opened"\n\n\ndef fail(exc, msg):\n    raise exc(msg)\n'),
    _shape("mismatched-tags-in-source", 'OPEN = "<error>opened here"\nCLOSE = "closed as </info> there"\n\n\ndef fail(exc, msg):\n    raise exc(msg)\n'),
]
SHAPE_BY_NAME = {s["name"]: s for s in SHAPES}

SOURCELESS = ["exec-string", "missing-file", "eval", "deleted-after-load", "truncated-after-load", "shortened-after-load",
              "untokenizable-after-load", "not-python-after-load", "bad-dedent-after-load", "tabs-after-load"]


def make_case(shape, pre, post, exc, msg, depth=1, kind="file", crlf=False):
    """json-able description of one exception to produce"""
    sh = SHAPE_BY_NAME[shape]
    text = "".join(f + "\n" for f in pre) + sh["body"]
    if post:
        if not text.endswith("\n"):
            text += "\n"
        text += "\n" + "".join(f + "\n" for f in post)
    if crlf:
        text = text.replace("\n", "\r\n")
    return {"kind": kind, "shape": shape, "text": text, "exc": exc, "msg": msg, "depth": depth}


def _case_key(case):
    import hashlib
    return hashlib.blake2b(json.dumps(case, sort_keys=True).encode(), digest_size=8).hexdigest()


_COUNTER = [0]


def produce(case, root):
    """writes the file(s), raises the exception inside them, returns (exception, info)
    info: file (path or None when the source is not available), lines (source lines or None), lineno"""
    _COUNTER[0] += 1
    n = _COUNTER[0]
    sh = SHAPE_BY_NAME[case["shape"]]
    kind = case["kind"]
    exc_cls = EXC[case["exc"]]
    msg = case["msg"]
    text = case["text"]
    path = os.path.join(root, "gen_%d.py" % n)
    has_file = kind in ("file", "deleted-after-load", "truncated-after-load", "shortened-after-load", "ignored-middle",
                        "untokenizable-after-load", "not-python-after-load", "bad-dedent-after-load", "tabs-after-load")
    if has_file:
        with open(path, "w", encoding="utf-8", newline="") as f:
            f.write(text)
        fname = path
    elif kind == "missing-file":
        fname = os.path.join(root, "never_written_%d.py" % n)
    elif kind == "eval":
        fname = "<eval-%d>" % n
    else:
        fname = "<string>"
    ns = {"__name__": "gen_%d" % n, "EXC": exc_cls, "MSG": msg}
    caught = None
    try:
        if kind == "eval":
            eval(compile("EXC(MSG).missing_attribute if MSG is None else (_ for _ in ()).throw(EXC(MSG))", fname, "eval"), ns)
        else:
            code = compile(text.replace("\r\n", "\n"), fname, "exec")
            exec(code, ns)
            if not sh["module_level"]:
                args = [case["depth"] if a == "DEPTH" else a for a in sh["extra"]]
                ns[sh["entry"]](exc_cls, msg, *args)
    except Exception as e:  # the generated code is supposed to raise
        caught = e
    if caught is None:
        raise RuntimeError("generated case did not raise: %r" % (case,))
    # drop the frame of this function: the trace then consists of frames of the generated code only (this
    # file contains unbalanced markup-like literals, which is a case of its own: shape mismatched-tags-in-source)
    if caught.__traceback__.tb_next is not None:
        caught = caught.with_traceback(caught.__traceback__.tb_next)
    tb = caught.__traceback__
    while tb.tb_next:
        tb = tb.tb_next
    info = {"file": None, "lines": None, "lineno": tb.tb_lineno, "frame_file": tb.tb_frame.f_code.co_filename}
    if kind == "file":
        info["file"] = path
        info["lines"] = text.replace("\r\n", "\n").split("\n")
        if info["lines"] and info["lines"][-1] == "":
            info["lines"].pop()
    elif kind == "deleted-after-load":
        os.remove(path)
    elif kind == "truncated-after-load":
        open(path, "w").close()
    elif kind == "shortened-after-load":
        with open(path, "w") as f:
            f.write("# only this line is left\n")
    elif kind == "untokenizable-after-load":
        # the file changed on disk and now ends inside a multi-line string: Python's tokenizer gives up on it
        with open(path, "w") as f:
            f.write('def fail(exc, msg):\n    text = """never closed\n    raise exc(msg)\n')
    elif kind == "not-python-after-load":
        with open(path, "w") as f:
            f.write("  this is {not python (at all\n\tmixed\n   indentation ]\n")
    elif kind == "bad-dedent-after-load":
        # a dedent to a column that matches no outer level: the tokenizer itself raises IndentationError
        with open(path, "w") as f:
            f.write("def fail(exc, msg):\n        a = 1\n    raise exc(msg)\n")
    elif kind == "tabs-after-load":
        # tabs and blanks mixed inconsistently: TabError
        with open(path, "w") as f:
            f.write("def fail(exc, msg):\n    if msg:\n        a = 1\n\tb = 2\n    raise exc(msg)\n")
    return caught, info


def multi_line_rows(lines):
    """rows (1-based) touched by a token that spans several lines, per Python's tokenizer"""
    rows = set()
    src = "\n".join(lines) + "\n"
    try:
        for t in tokenize.generate_tokens(_io.StringIO(src).readline):
            if t.start[0] != t.end[0] and t.type not in (tokenize.NEWLINE, tokenize.NL):
                rows.update(range(t.start[0], t.end[0] + 1))
    except (tokenize.TokenError, SyntaxError, IndentationError):
        return None
    return rows


def make_io(verbosity, utf8, ansi):
    from clikit.formatter import AnsiFormatter
    from clikit.io import BufferedIO

    io = BufferedIO(formatter=AnsiFormatter(forced=True) if ansi else None, supports_utf8=utf8)
    io.set_verbosity(verbosity)
    return io


SNIPPET_LINE = re.compile(r"^\s*(?P<mark>[→>] )?\s*(?P<num>\d+)(?P<delim>[│|])(?: (?P<text>.*))?$")
AT_LINE = re.compile(r"^\s*at (?P<file>.+):(?P<line>\d+) in (?P<func>.+)$")


HEADER_LINE = re.compile(r"^\s*(?:\d+\s+|at )(?P<file>\S.*):(?P<line>\d+) in (?P<func>.+)$")


def all_snippets(lines):
    """[(header match, [(marked, number, text)])] for every 'FILE:LINE in FUNC' line that is directly followed by
    numbered code lines (the frames of a debug trace and the final 'at ...' location)"""
    out = []
    i = 0
    while i < len(lines):
        h = HEADER_LINE.match(lines[i])
        if h:
            snip = []
            j = i + 1
            while j < len(lines):
                m = SNIPPET_LINE.match(lines[j])
                if not m:
                    break
                snip.append((bool(m.group("mark")), int(m.group("num")), m.group("text") or ""))
                j += 1
            if snip:
                out.append((h, snip))
            i = j
        else:
            i += 1
    return out


def parse_snippet(lines):
    """the numbered lines following the LAST 'at FILE:LINE in FUNC' line"""
    at = None
    for i, ln in enumerate(lines):
        if AT_LINE.match(ln):
            at = i
    if at is None:
        return None, []
    out = []
    for ln in lines[at + 1:]:
        m = SNIPPET_LINE.match(ln)
        if not m:
            break
        out.append((bool(m.group("mark")), int(m.group("num")), m.group("text") or ""))
    return AT_LINE.match(lines[at]), out


def message_pieces(message):
    """non-empty pieces of the message that must be visible, in order (markup aside, line by line)"""
    pieces = []
    for line in message.split("\n"):
        for piece in split_markup(line):
            piece = piece.strip()
            if piece:
                pieces.append(piece)
    return pieces


def _line_class(line):
    if line.rstrip().endswith("\\"):
        return "backslash-continuation"
    if "\t" in line:
        return "tab"
    if "\f" in line:
        return "form-feed"
    if any(ord(c) > 127 for c in line):
        return "non-ascii"
    if MARKUPISH.search(line):
        return "markup"
    return "plain"


def check_render(e, info, mode, case_class):
    """one render of exception e; mode: dict(verbosity, utf8, ansi, simple, ignore). Returns [(sig, what)]"""
    from clikit.ui.components.exception_trace import ExceptionTrace

    fails = []
    io = make_io(mode["verbosity"], mode["utf8"], mode["ansi"])
    trace = ExceptionTrace(e)
    if mode.get("ignore"):
        trace.ignore_files_in(mode["ignore"])
    message = str(e)
    cname = type(e).__name__
    label = "simple" if mode["simple"] else "full"
    try:
        trace.render(io, simple=mode["simple"])
    except Exception as ex:  # the property: rendering succeeds
        if mode["simple"]:
            cls = "closing-tag-in-message" if has_closing_tag(message) else "other-message"
        else:
            cls = case_class
        return [("render|%s|raises|%s|%s" % (label, type(ex).__name__, cls),
                 "render(%s, verbosity=%d, utf8=%s, ansi=%s) of %s(%r) [%s] raised %r" % (
                     label, mode["verbosity"], mode["utf8"], mode["ansi"], cname, message[:60], case_class, ex))]
    out = ANSI_RE.sub("", io.fetch_output())
    if io.fetch_error():
        out += ANSI_RE.sub("", io.fetch_error())
    lines = out.split("\n")

    if mode["simple"]:
        # either the text of the message (tags removed, escaped tags shown as text) or, failing that, the message as it is
        want = strip_markup(message).rstrip("\n")
        if out.rstrip("\n") != want and strip_markup(out).rstrip("\n") != want:
            cls = "|message-ends-in-backslash" if message.endswith("\\") else ""
            fails.append(("content|simple|not-just-the-message" + cls, "simple render of %s(%r) printed %r" % (cname, message[:60], out[:120])))
        return fails

    # ---- class name, then the message pieces in order
    idx = None
    for i, ln in enumerate(lines):
        if ln.strip() == cname:
            idx = i
    if idx is None:
        if cname in out:
            idx = 0
        else:
            fails.append(("content|full|class-name-missing", "trace of %s(%r) does not show the class name" % (cname, message[:60])))
            idx = 0
    rest = "\n".join(lines[idx:])
    missing = None
    # (the second reading is the raw fallback: a message that is not valid markup is printed as it is, escapes included)
    for shown in (rest, rest.replace("\\<", "<")):
        pos = 0
        missing = None
        for piece in message_pieces(message):
            j = shown.find(piece, pos)
            if j < 0:
                missing = piece
                break
            pos = j + len(piece)
        if missing is None:
            break
    if missing is not None:
        cls = "escaped-tag-in-message" if "\\<" in message else ("message-ends-in-backslash" if message.endswith("\\") else "other-message")
        fails.append(("content|full|message-text-missing|" + cls, "trace of %s(%r) does not show %r after the class name" % (cname, message[:60], missing[:60])))

    # ---- snippet
    if info["lines"] is not None:
        at, snippet = parse_snippet(lines)
        src = info["lines"]
        n = len(src)
        L = info["lineno"]
        if at is None or not snippet:
            fails.append(("snippet|missing", "no code snippet for %s raised at %s:%d (%s)" % (cname, os.path.basename(info["file"]), L, case_class)))
        else:
            if int(at.group("line")) != L:
                fails.append(("snippet|location-line-wrong", "location says line %s, Python says %d" % (at.group("line"), L)))
            nums = [s[1] for s in snippet]
            if nums != list(range(nums[0], nums[0] + len(nums))):
                fails.append(("snippet|numbers-not-consecutive", "snippet numbers %r" % (nums,)))
            marked = [s[1] for s in snippet if s[0]]
            if marked != [L]:
                fails.append(("snippet|marker-wrong", "failing line %d, marked %r, shown %r (%s)" % (L, marked, nums, case_class)))
            rows = multi_line_rows(src)
            if rows is not None:
                for _, num, text in snippet:
                    if num > n:
                        if num > n + 1 or text.strip():
                            fails.append(("snippet|line-beyond-the-file", "snippet shows line %d (%r) of a file with %d lines" % (num, text[:40], n)))
                        continue
                    if num in rows:
                        continue
                    # the line as it is in the file; style tags inside it may be left out ("markup aside")
                    want = strip_markup(src[num - 1]).rstrip()
                    if text.rstrip() not in (src[num - 1].rstrip(), want):
                        fails.append(("snippet|line-not-verbatim|" + _line_class(src[num - 1]), "line %d shown as %r, source is %r (%s)" % (num, text[:80], src[num - 1][:80], case_class)))
                        break

    # ---- every numbered snippet of the page (frames of a debug trace too): consecutive numbers, marker on its line
    for h, snip in (all_snippets(lines) if info["lines"] is not None else []):
        nums = [x[1] for x in snip]
        marked = [x[1] for x in snip if x[0]]
        if nums != list(range(nums[0], nums[0] + len(nums))) or marked != [int(h.group("line"))]:
            if h.group(0).lstrip().startswith("at "):
                continue  # reported above with the better message
            fails.append(("snippet|frame-snippet-numbering", "snippet under %r: numbers %r, marked %r (%s)" % (h.group(0).strip()[-60:], nums, marked, case_class)))
            break

    # ---- the symbols of every numbered line (final snippet and frames of a debug trace) are those of the output: an
    #      output without UTF-8 support gets the ASCII marker and delimiter
    if info["lines"] is not None:
        want = ("\u2192 ", "\u2502") if mode["utf8"] else ("> ", "|")
        for ln in lines:
            m = SNIPPET_LINE.match(ln)
            if m and ((m.group("mark") or want[0]) != want[0] or m.group("delim") != want[1]):
                fails.append(("snippet|symbols-of-the-other-kind-of-output|%s" % ("utf8" if mode["utf8"] else "ascii"),
                              "output with supports_utf8=%s shows the numbered line %r" % (mode["utf8"], ln.strip()[:60])))
                break

    # ---- ignore pattern
    if mode.get("ignore") and mode.get("ignored_marker"):
        shown = mode["ignored_marker"] in out
        if mode["verbosity"] >= 4 and not shown:
            fails.append(("ignore|frame-missing-at-debug", "debug trace does not show the frame of the ignored file"))
        if mode["verbosity"] < 4 and shown:
            fails.append(("ignore|ignored-frame-shown", "verbosity %d: the trace shows a frame of an ignored file" % mode["verbosity"]))
    return fails


# ------------------------------------------------------------------------------------------ ignore cases
def produce_ignored(root, exc_name, msg, via_link=False):
    """keep/a.py:entry -> ignored/b.py:middle -> keep/a.py:leaf raises"""
    _COUNTER[0] += 1
    n = _COUNTER[0]
    keep = os.path.join(root, "keep_%d" % n)
    ign = os.path.join(root, "ignored_%d" % n)
    os.makedirs(keep)
    os.makedirs(ign)
    if via_link:
        # the ignored code is reached (and reported by Python) through a symbolic link to its directory: the pattern is
        # written for the path as it is reported
        link = os.path.join(root, "ignoredlink_%d" % n)
        os.symlink(ign, link)
        ign = link
    a_path = os.path.join(keep, "a_%d.py" % n)
    b_path = os.path.join(ign, "b_%d.py" % n)
    a_text = "def entry(middle, exc, msg):\n    return middle(leaf, exc, msg)\n\n\ndef leaf(exc, msg):\n    raise exc(msg)\n"
    b_text = "# helper living in an ignored directory\ndef middle(leaf, exc, msg):\n    value = leaf(exc, msg)\n    return value\n"
    for p, t in ((a_path, a_text), (b_path, b_text)):
        with open(p, "w", encoding="utf-8") as f:
            f.write(t)
    nsa, nsb = {"__name__": "a_%d" % n}, {"__name__": "b_%d" % n}
    exec(compile(a_text, a_path, "exec"), nsa)
    exec(compile(b_text, b_path, "exec"), nsb)
    try:
        nsa["entry"](nsb["middle"], EXC[exc_name], msg)
    except Exception as e:
        caught = e.with_traceback(e.__traceback__.tb_next)
    info = {"file": a_path, "lines": a_text.split("\n")[:-1], "lineno": 6, "frame_file": a_path}
    return caught, info, ign, os.path.basename(b_path)


# ------------------------------------------------------------------------------------------ highlighter corpus
def corpus_files(thorough):
    base = os.path.join(os.environ.get("CLIKIT_REPO", "/repo"), "src")
    roots = [base]
    if thorough:
        import json as _json
        roots.append(os.path.dirname(_json.__file__))
    out = []
    for r in roots:
        for d, _, fs in os.walk(r):
            for f in sorted(fs):
                if f.endswith(".py"):
                    out.append(os.path.join(d, f))
    return sorted(out)


MARKUPISH = re.compile(r"<[/a-zA-Z]|\\<")


def check_highlighter_file(path):
    with open(path, encoding="utf-8") as f:
        src = f.read()
    return check_highlighter_text(src, path)


def check_highlighter_text(src, path, known_markup=False):
    """path: label for messages; known_markup: the text only contains tags of the documented language, so
    lines with markup are compared too (markup stripped)"""
    from clikit.formatter import PlainFormatter
    from clikit.ui.components.exception_trace import Highlighter

    fails = []
    src = src.replace("\r\n", "\n")
    lines = src.split("\n")
    if lines and lines[-1] == "":
        lines.pop()
    n = len(lines)
    cls = "empty-source" if not src.strip() else "source"
    try:
        hl = Highlighter().highlighted_lines(src)
    except Exception as e:
        return [("highlighter|raises|%s|%s" % (type(e).__name__, cls), "Highlighter().highlighted_lines(%s) raised %r" % (path, e))], n
    if len(hl) not in (n, n + 1):
        fails.append(("highlighter|line-count", "%s: %d source lines, %d highlighted lines" % (path, n, len(hl))))
        return fails, n
    pf = PlainFormatter()
    rows = multi_line_rows(lines)
    if rows is not None:
        for i in range(n):
            if (i + 1) in rows:
                continue
            try:
                shown = pf.remove_format(hl[i])
            except ValueError as e:
                fails.append(("highlighter|line-is-not-valid-markup|" + _line_class(lines[i]), "%s:%d highlighted as %r, which cannot be formatted: %r" % (path, i + 1, hl[i][:80], e)))
                break
            if shown.rstrip() not in (lines[i].rstrip(), strip_markup(lines[i]).rstrip()):
                fails.append(("highlighter|line-not-verbatim|" + _line_class(lines[i]), "%s:%d highlighted as %r, source %r" % (path, i + 1, shown[:80], lines[i][:80])))
                break
        if len(hl) == n + 1 and pf.remove_format(hl[n]).strip():
            fails.append(("highlighter|line-count", "%s: extra non-empty line after the last source line" % path))
    for mark in sorted(set(m for m in (1, 2, n // 2, n - 1, n) if 1 <= m <= n)):
        for utf8 in (True, False):
            try:
                snip = Highlighter(supports_utf8=utf8).code_snippet(src, mark, 4, 4)
            except Exception as e:
                fails.append(("highlighter|raises|%s|%s" % (type(e).__name__, cls), "code_snippet(%s, %d) raised %r" % (path, mark, e)))
                break
            parsed = [SNIPPET_LINE.match(pf.remove_format(s)) for s in snip]
            if not snip or any(p is None for p in parsed):
                fails.append(("highlighter|snippet-malformed", "code_snippet(%s, %d) gave %r" % (path, mark, snip[:2])))
                break
            nums = [int(p.group("num")) for p in parsed]
            marked = [int(p.group("num")) for p in parsed if p.group("mark")]
            if nums != list(range(nums[0], nums[0] + len(nums))) or marked != [mark]:
                fails.append(("highlighter|snippet-numbering", "code_snippet(%s, %d): numbers %r, marked %r" % (path, mark, nums, marked)))
                break
    return fails, n


# ------------------------------------------------------------------------------------------ driver
class _Failer:
    def __init__(self, ctx, per_sig=3):
        self.ctx = ctx
        self.count = {}
        self.per_sig = per_sig

    def __call__(self, sig, what, witness):
        n = self.count.get(sig, 0)
        self.count[sig] = n + 1
        if n < self.per_sig:
            self.ctx.fail(sig, what, witness)


def case_class(case):
    if case["kind"] in ("shortened-after-load", "untokenizable-after-load", "not-python-after-load", "bad-dedent-after-load",
                        "tabs-after-load"):
        return "source-changed-after-load"
    if case["kind"] != "file":
        return "source-less"
    if case["shape"] in ("opening-tag-only-in-source", "closing-tag-only-in-source", "mismatched-tags-in-source"):
        return case["shape"]
    return "sourced"


MODES_FULL = [{"verbosity": v, "utf8": u, "ansi": a, "simple": False} for v in (0, 1, 2, 4) for u in (True, False) for a in (False, True)]


def run_case(case, modes, root):
    """-> list of (mode, [(sig, what)])"""
    e, info = produce(case, root)
    cc = case_class(case)
    return [(m, check_render(e, info, m, cc)) for m in modes], (info["lines"] is not None or bool(str(e)))


def bounded(ctx):
    rng = random.Random(ctx.seed * 15485863 + 29)
    quick = ctx.quick
    root = tempfile.mkdtemp(prefix="c20_")
    try:
        _bounded(ctx, rng, quick, root)
    finally:
        shutil.rmtree(root, ignore_errors=True)


def _bounded(ctx, rng, quick, root):
    # ------------------------------------------------------------ messages (exhaustive small table)
    classes = ["ValueError", "KeyError", "GenError", "ErreurSpéciale"]
    combos = [(True, False), (False, True), (True, True)] if quick else [(u, a) for u in (True, False) for a in (False, True)]
    ctx.check("messages", ("one plain source file x all %d adversarial messages x %d exception classes x {simple: ANSI/plain; full: verbosity "
                           "{0,1,2,4} x %d (UTF-8, ANSI) combinations}: render succeeds, class name + message (markup aside) shown, simple = just "
                           "the message") % (len(MESSAGES), len(classes), len(combos)))
    fail = _Failer(ctx)
    for mi, msg in enumerate(MESSAGES):
        for cn in classes:
            case = make_case("plain", [], [], cn, msg)
            modes = [{"verbosity": 0, "utf8": True, "ansi": a, "simple": True} for a in (False, True)]
            modes += [{"verbosity": v, "utf8": u, "ansi": a, "simple": False} for v in (0, 1, 2, 4) for (u, a) in combos]
            results, nontriv = run_case(case, modes, root)
            key = _case_key(case)
            for mode, fl in results:
                ctx.case([key, mode], nontrivial=bool(msg), sample={"message": msg[:40], "exc": cn, "mode": mode})
                for sig, what in fl:
                    fail(sig, what, {"case": case, "mode": mode})
    ctx.done(exhaustive=True)

    # ------------------------------------------------------------ generated sources
    n_cases = 80 if quick else 3000
    ctx.check("sources", ("%d seeded cases: statement shape (%d shapes: single / multi-line raise, comments, tabs, non-ASCII, markup in source, "
                          "multi-line strings around / on the failing line, module level, no final newline, lambda, method, closure, chained, real "
                          "errors, decorators, unbalanced markup) x 0-9 filler statements before and 0-6 after x class x message%s x 4 modes out of "
                          "verbosity {0,1,2,4} x UTF-8 x ANSI per case in quick (all 16 modes for the first 22 and for every case in thorough): render "
                          "succeeds, content, snippet numbering / marker / verbatim lines; plus the highlighter alone over each whole generated file") % (n_cases, len([s for s in SHAPES if not s["extra"]]), "" if quick else " x CRLF"))
    fail = _Failer(ctx)
    budget = 14 if quick else 360
    t0 = time.time()
    complete = True
    shapes = [s["name"] for s in SHAPES if not s["extra"]]
    for ci in range(n_cases):
        if time.time() - t0 > budget or ctx.out_of_time():
            complete = False
            break
        shape = shapes[ci % len(shapes)] if ci < 2 * len(shapes) else rng.choice(shapes)
        npre = rng.choice([0, 0, 1, 2, 3, 5, 9]) if ci >= len(shapes) else 0
        npost = rng.choice([0, 0, 2, 6])
        pre = [rng.choice(FILLERS) for _ in range(npre)]
        post = [rng.choice(FILLERS) for _ in range(npost)]
        msg = MESSAGES[0] if ci < len(shapes) else rng.choice(MESSAGES)
        cn = rng.choice(list(EXC))
        case = make_case(shape, pre, post, cn, msg, crlf=(not quick and rng.random() < 0.1))
        modes = MODES_FULL if (ci < len(shapes) or not quick) else rng.sample(MODES_FULL, 4)
        results, nontriv = run_case(case, modes, root)
        key = _case_key(case)
        for mode, fl in results:
            ctx.case([key, mode], nontrivial=nontriv, sample={"shape": shape, "fillers": [npre, npost], "exc": cn, "mode": mode})
            for sig, what in fl:
                fail(sig, what, {"case": case, "mode": mode})
        # the highlighter alone over the whole generated file (all lines, not only the 9 of the snippet)
        if case_class(case) == "sourced":
            ctx.case([key, "highlighter"], nontrivial=True)
            for sig, what in check_highlighter_text(case["text"], "generated:" + shape, known_markup=True)[0]:
                fail(sig, what, {"case": case, "mode": "highlighter"})
    ctx.done(exhaustive=False, note="" if complete else "stopped by the time budget after %d cases" % ci)

    # ------------------------------------------------------------ source-less
    msgs = [MESSAGES[0], MESSAGES[3], MESSAGES[7]] if quick else MESSAGES
    ctx.check("sourceless", ("%d kinds of code without (usable) source (%s) x %d messages x verbosity {0,1,2,4} x UTF-8 on/off%s: render succeeds, "
                             "class name and message shown") % (len(SOURCELESS), ", ".join(SOURCELESS), len(msgs), "" if quick else " x ANSI/plain"))
    fail = _Failer(ctx)
    for kind in SOURCELESS:
        for msg in msgs:
            case = make_case("plain", [FILLERS[0], FILLERS[2]], [], "GenError", msg, kind=kind)
            modes = [{"verbosity": v, "utf8": u, "ansi": a, "simple": False} for v in (0, 1, 2, 4) for u in (True, False) for a in ((False,) if quick else (False, True))]
            results, nontriv = run_case(case, modes, root)
            key = _case_key(case)
            for mode, fl in results:
                ctx.case([key, mode], nontrivial=nontriv, sample={"kind": kind, "message": msg[:30], "mode": mode})
                for sig, what in fl:
                    fail(sig, what, {"case": case, "mode": mode})
    ctx.done(exhaustive=True)

    # ------------------------------------------------------------ recursion
    depths = [1, 2, 5, 60]
    ctx.check("recursion", "direct and mutual recursion x depth {1,2,5,60} x 2 messages x verbosity {0,1,2,4} x UTF-8 on/off (plain): render succeeds, content, snippet")
    fail = _Failer(ctx)
    for shape in ("recursive", "mutual-recursion"):
        for depth in depths:
            for msg in (MESSAGES[0], MESSAGES[2]):
                case = make_case(shape, [FILLERS[0]], [FILLERS[1], FILLERS[2]], "RuntimeError", msg, depth=depth)
                modes = [{"verbosity": v, "utf8": u, "ansi": False, "simple": False} for v in (0, 1, 2, 4) for u in (True, False)]
                results, nontriv = run_case(case, modes, root)
                key = _case_key(case)
                for mode, fl in results:
                    ctx.case([key, mode], nontrivial=depth > 1, sample={"shape": shape, "depth": depth, "mode": mode})
                    for sig, what in fl:
                        fail(sig, what, {"case": case, "mode": mode})
    ctx.done(exhaustive=True)

    # ------------------------------------------------------------ ignore patterns
    ctx.check("ignore", "a 3-frame stack keep/a.py -> ignored/b.py -> keep/a.py x ignore pattern {the ignored dir, the ignored dir reached through a symbolic link, its parent-anchored regex, a pattern matching "
                        "nothing} x verbosity {0,1,2,4} x UTF-8 on/off: ignored frame shown iff debug; render succeeds; content; snippet")
    fail = _Failer(ctx)
    for pat_kind in ("dir", "linked-dir", "regex", "nothing"):
        for msg in (MESSAGES[0], MESSAGES[7]):
            e, info, ign_dir, marker = produce_ignored(root, "GenError", msg, via_link=(pat_kind == "linked-dir"))
            if pat_kind in ("dir", "linked-dir"):
                pattern = re.escape(ign_dir)
            elif pat_kind == "regex":
                pattern = r"^.*/ignored_\d+/b_\d+\.py$"
            else:
                pattern = re.escape(os.path.join(root, "no-such-dir"))
            for v in (0, 1, 2, 4):
                for u in (True, False):
                    mode = {"verbosity": v, "utf8": u, "ansi": False, "simple": False, "ignore": pattern,
                            "ignored_marker": marker if pat_kind != "nothing" else None}
                    ctx.case([pat_kind, msg, v, u], nontrivial=pat_kind != "nothing" and v > 0)
                    for sig, what in check_render(e, info, mode, "sourced"):
                        fail(sig, what, {"ignore_case": pat_kind, "msg": msg, "mode": {k: mode[k] for k in ("verbosity", "utf8", "ansi", "simple")}})
                    if pat_kind != "nothing" and v in (1, 2) and u:
                        # one trace object rendered at debug first (a log file) and then at this verbosity (the console)
                        from clikit.ui.components.exception_trace import ExceptionTrace
                        tr = ExceptionTrace(e).ignore_files_in(pattern)
                        try:
                            tr.render(make_io(4, u, False))
                            io2 = make_io(v, u, False)
                            tr.render(io2)
                            again = ANSI_RE.sub("", io2.fetch_output())
                        except Exception as ex:
                            again = None
                            fail("ignore|second-render-raises", "rendering one trace at debug and then at verbosity %d raised %r" % (v, ex),
                                 {"ignore_case": pat_kind, "msg": msg, "mode": {k: mode[k] for k in ("verbosity", "utf8", "ansi", "simple")}, "after_debug": True})
                        if again is not None and marker in again:
                            fail("ignore|ignored-frame-shown|after-a-debug-rendering",
                                 "one trace rendered at debug and then at verbosity %d: the second rendering shows the frame of the ignored file" % v,
                                 {"ignore_case": pat_kind, "msg": msg, "mode": {k: mode[k] for k in ("verbosity", "utf8", "ansi", "simple")}, "after_debug": True})
                    if pat_kind == "nothing" and v in (1, 2) and marker not in ANSI_RE.sub("", _render_plain(e, mode)):
                        fail("ignore|unmatched-frame-dropped", "a frame whose file does not match the ignore pattern is missing at verbosity %d" % v,
                             {"ignore_case": pat_kind, "msg": msg, "mode": {k: mode[k] for k in ("verbosity", "utf8", "ansi", "simple")}})
    ctx.done(exhaustive=True)

    # ------------------------------------------------------------ highlighter corpus
    files = corpus_files(not quick)
    ctx.check("highlighter_corpus", "Highlighter alone over every .py file under $CLIKIT_REPO/src%s (%d files): highlighted_lines = one line per source line, "
                                    "single-line-token lines verbatim; code_snippet at 5 positions x UTF-8 on/off numbers consecutively and marks the asked line" % (
        "" if quick else " and the stdlib json package", len(files)))
    fail = _Failer(ctx)
    for p in files:
        fl, n = check_highlighter_file(p)
        rel = os.path.relpath(p, os.path.join(os.environ.get("CLIKIT_REPO", "/repo"), "src")) if "site-packages" not in p else p
        ctx.case([rel], nontrivial=n > 0, sample=rel)
        for sig, what in fl:
            fail(sig, what, {"file": rel})
    ctx.done(exhaustive=True)


def _render_plain(e, mode):
    from clikit.ui.components.exception_trace import ExceptionTrace

    io = make_io(mode["verbosity"], mode["utf8"], False)
    t = ExceptionTrace(e)
    if mode.get("ignore"):
        t.ignore_files_in(mode["ignore"])
    try:
        t.render(io)
    except Exception:
        return ""
    return io.fetch_output()


def replay_bounded(check_id, failure):
    w = failure.get("witness") or {}
    sig = failure["signature"]
    root = tempfile.mkdtemp(prefix="c20r_")
    try:
        if check_id.endswith(".highlighter_corpus"):
            p = w["file"]
            if not os.path.isabs(p):
                p = os.path.join(os.environ.get("CLIKIT_REPO", "/repo"), "src", p)
            got = check_highlighter_file(p)[0]
        elif check_id.endswith(".ignore"):
            e, info, ign_dir, marker = produce_ignored(root, "GenError", w["msg"], via_link=(w["ignore_case"] == "linked-dir"))
            kind = w["ignore_case"]
            pattern = {"dir": re.escape(ign_dir), "linked-dir": re.escape(ign_dir), "regex": r"^.*/ignored_\d+/b_\d+\.py$"}.get(kind, re.escape(os.path.join(root, "no-such-dir")))
            mode = dict(w["mode"], ignore=pattern, ignored_marker=marker if kind != "nothing" else None)
            got = check_render(e, info, mode, "sourced")
            if w.get("after_debug"):
                from clikit.ui.components.exception_trace import ExceptionTrace
                tr = ExceptionTrace(e).ignore_files_in(pattern)
                try:
                    tr.render(make_io(4, mode["utf8"], False))
                    io2 = make_io(mode["verbosity"], mode["utf8"], False)
                    tr.render(io2)
                    if marker in ANSI_RE.sub("", io2.fetch_output()):
                        got.append(("ignore|ignored-frame-shown|after-a-debug-rendering", "the second rendering shows the frame of the ignored file"))
                except Exception as ex:
                    got.append(("ignore|second-render-raises", "%r" % (ex,)))
            if kind == "nothing" and marker not in ANSI_RE.sub("", _render_plain(e, mode)) and mode["verbosity"] in (1, 2):
                got.append(("ignore|unmatched-frame-dropped", "a frame whose file does not match the ignore pattern is missing"))
        elif w.get("mode") == "highlighter":
            got = check_highlighter_text(w["case"]["text"], "generated:" + w["case"]["shape"], known_markup=True)[0]
        else:
            results, _ = run_case(w["case"], [w["mode"]], root)
            got = results[0][1]
    finally:
        shutil.rmtree(root, ignore_errors=True)
    hit = [g for g in got if g[0] == sig]
    return {"fails": bool(hit), "detail": hit[0][1] if hit else "no longer fails (other failures of this case: %r)" % [g[0] for g in got]}
