"""Extra bounded check of C20: every snippet of a debug-level trace marks exactly the line named in its frame header,
also when one function occurs in the trace(s) at different lines (class-level snippet cache)."""
import importlib.util
import io as _io
import os
import re
import shutil
import tempfile

SOURCE = (
    u"def leaf(tag):\n"
    u"    raise KeyError('no such tag: ' + tag)\n"
    u"\n"
    u"\n"
    u"def dispatch(kind):\n"
    u"    if kind == 'a':\n"
    u"        return leaf('alpha')\n"
    u"    prepared = kind.upper()\n"
    u"    checked = prepared.strip()\n"
    u"    return leaf(checked)\n"
    u"\n"
    u"\n"
    u"def walk(depth):\n"
    u"    if depth > 0:\n"
    u"        return walk(depth - 1)\n"
    u"    marker = 'bottom'\n"
    u"    found = marker.title()\n"
    u"    return leaf(found)\n"
    u"\n"
    u"\n"
    u"def outer(kind, depth):\n"
    u"    if depth:\n"
    u"        return walk(depth)\n"
    u"    return dispatch(kind)\n"
)
HEADER = re.compile(u"^\\s*(?:\\d+\\s{2}|at )(.+):(\\d+) in (\\S+)$")
CODE = re.compile(u"^\\s*(?:(→|>) )?\\s*(\\d+)(?:│|\\|) ?(.*)$")
SGR = re.compile("\x1b\\[[0-9;]*m")


def _load(tmp, n):
    path = os.path.join(tmp, "c20x_subject_%d.py" % n)
    with _io.open(path, "w", encoding="utf-8", newline="\n") as f:
        f.write(SOURCE)
    spec = importlib.util.spec_from_file_location("c20x_subject_%d" % n, path)
    module = importlib.util.module_from_spec(spec)
    spec.loader.exec_module(module)
    return module


def _render(call, utf8, verbosity):
    from clikit.io.buffered_io import BufferedIO
    from clikit.ui.components.exception_trace import ExceptionTrace
    try:
        call()
    except KeyError as e:
        err = e
    io = BufferedIO(supports_utf8=utf8)
    io.set_verbosity(verbosity)
    ExceptionTrace(err).render(io)
    return SGR.sub("", io.fetch_output())


def _snippets(text):
    """[(lineno of header, [marked line numbers], [(n, text)])] for each frame header followed by code lines"""
    out = []
    cur = None
    for ln in text.splitlines():
        h = HEADER.match(ln)
        if h and "subject" in h.group(1):
            cur = (int(h.group(2)), [], [])
            out.append(cur)
            continue
        c = CODE.match(ln)
        if c and cur is not None:
            if c.group(1):
                cur[1].append(int(c.group(2)))
            cur[2].append((int(c.group(2)), c.group(3)))
    return out


def bounded_extra(ctx):
    ctx.check("debug_frame_snippets",
              "one generated module; 12 call scripts (the same function reached at two different lines, within one "
              "trace and across traces rendered in one process) x utf8 on/off x verbosity {very verbose, debug}")
    src_lines = SOURCE.split("\n")
    tmp = tempfile.mkdtemp(prefix="c20x_")
    try:
        n = 0
        scripts = [
            [("a", 0)], [("b", 0)], [("a", 0), ("b", 0)], [("b", 0), ("a", 0)], [("x", 2)], [("x", 2), ("a", 0)],
            [("a", 0), ("x", 1), ("b", 0)], [("x", 1), ("x", 3)], [("b", 0), ("b", 0)], [("x", 3), ("b", 0), ("a", 0)],
            [("a", 0), ("a", 0), ("b", 0)], [("x", 1), ("b", 0), ("x", 2), ("a", 0)],
        ]
        for script in scripts:
            for utf8 in (True, False):
                for verbosity in (2, 4):
                    n += 1
                    mod = _load(tmp, n)  # a fresh module: frames of earlier cases are not in play
                    for k, (kind, depth) in enumerate(script):
                        text = _render(lambda: mod.outer(kind, depth), utf8, verbosity)
                        key = [script, utf8, verbosity, k]
                        ctx.case(key, nontrivial=len(script) > 1 or depth > 0)
                        for lineno, marked, code in _snippets(text):
                            if not code:
                                continue
                            if marked != [lineno]:
                                ctx.fail("debug-snippet|marks-wrong-line",
                                         "frame header names line %d, its snippet marks %r (call %d of script %r, "
                                         "verbosity %d)" % (lineno, marked, k, script, verbosity), key)
                            for num, shown in code:
                                if 1 <= num <= len(src_lines) and shown.rstrip() != src_lines[num - 1].rstrip():
                                    ctx.fail("debug-snippet|line-not-verbatim",
                                             "snippet line %d shows %r, the source has %r" % (num, shown, src_lines[num - 1]), key)
                                    break
    finally:
        shutil.rmtree(tmp, ignore_errors=True)
    ctx.done(exhaustive=True)
