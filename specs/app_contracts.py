"""Contracts on Command / ConsoleApplication (C04; used by C03, C09, C17)."""
from pyvc.contracts import REG as R
from . import io_contracts as ioc  # noqa: F401  (IO / Output shapes)

M_CMD = "clikit.api.command.command"
M_APP = "clikit.console_application"
M_TRACE = "clikit.ui.components.exception_trace"
M_ACFG = "clikit.api.config.application_config"
M_IOMOD = "clikit.api.io.io"

STATUS = "none|bool|int|real|str|list[str]|ref object"

R.shape("CommandConfig", external=True)
R.shape("EventDispatcher0", external=True)
R.shape("Command", _config="ref CommandConfig", g_status=STATUS, g_handler_calls="int", g_interrupted="bool")
R.shape("Args", external=True)
R.shape("ResolvedCommand", _command="ref Command", _args="ref Args?")
R.shape("ApplicationConfig", _catch_exceptions="bool", _terminate_after_run="bool", _io_factory="fn",
        g_solutions="none|ref object")
R.shape("ConsoleApplication", _preliminary_io="ref IO", _config="ref ApplicationConfig")
R.shape("ExceptionTrace", external=True)

# ---- Command._do_handle: the handler protocol (assumed here, decided by C04.B / _do_handle.once) ------------
R.contract(
    M_CMD + ":Command._do_handle",
    params={"args": "ref Args?", "io": "ref IO"},
    returns=STATUS,
    ensures=["self.g_status == result", "not self.g_interrupted"],
    raises={"Exception": "True", "KeyboardInterrupt": "True"},
    ensures_on_raise={"KeyboardInterrupt": ["self.g_interrupted"]},
    modifies=["self.g_status", "self.g_handler_calls", "self.g_interrupted"],
    assumed=True,
    note="the outcome of the handler (any value / any exception) is recorded in ghost g_status; handler-once is "
         "decided by the bounded tier",
)

CLAMP = "min(max(int(self.g_status), 1), 255)"
R.contract(
    M_CMD + ":Command.handle",
    params={"args": "ref Args?", "io": "ref IO"},
    returns="int",
    ensures=[
        "0 <= result and result <= 255",
        # an interrupt (outside debug mode) is status 1; otherwise 0 exactly for a false-y handler result ...
        "implies(self.g_interrupted, result == 1)",
        "implies(not self.g_interrupted, (result == 0) == (not self.g_status))",
        # ... and the integer value clamped into 1..255 otherwise
        "implies(not self.g_interrupted and isinstance(self.g_status, (bool, int, float)) and bool(self.g_status), "
        "result == %s)" % CLAMP,
        "implies(not self.g_interrupted and isinstance(self.g_status, str) and is_int_literal(self.g_status) "
        "and len(self.g_status) > 0, result == min(max(int_of_str(self.g_status), 1), 255))",
    ],
    # what int() raises on the handler's value, or what the handler raised
    raises={"Exception": "True", "KeyboardInterrupt": "io._output._verbosity == 4"},
    modifies=["self.g_status", "self.g_handler_calls", "self.g_interrupted"],
)
R.uf("is_int_literal", ["str"], "bool", raw=True)
R.uf("int_of_str", ["str"], "int", raw=True)

R.contract(
    M_APP + ":ConsoleApplication.exception_to_exit_code",
    params={"e": "exc Exception"},
    returns="int",
    ensures=["1 <= result and result <= 255"],
)

# ---- collaborators of run() ----------------------------------------------------------------------------------
R.contract(M_APP + ":ConsoleApplication.resolve_command", params={"args": "ref RawArgs"},
           returns="ref ResolvedCommand", raises={"Exception": "True"}, assumed=True,
           note="resolution is specified under C03; here: returns a resolved command or raises a library error")
R.shape("RawArgs", external=True)
R.contract(M_ACFG + ":ApplicationConfig.io_factory", params={}, returns="fn",
           ensures=["result == self._io_factory"], assumed=True).is_property = True
R.contract(M_ACFG + ":ApplicationConfig.solution_provider_repository", params={}, returns="none|ref object",
           assumed=True).is_property = True
R.contract(M_TRACE + ":ExceptionTrace.__init__", params={"exception": "exc Exception", "solution_provider_repository": "none|ref object"},
           assumed=True, note="stores its arguments").defaults = {"solution_provider_repository": None}
R.contract(M_TRACE + ":ExceptionTrace.render", params={"io": "ref IO", "simple": "bool"},
           assumed=True, note="rendering a trace does not raise: decided under C20").defaults = {"simple": False}
R.contract(M_IOMOD + ":IO.indent", params={"indent": "int"}, returns="ref Indent", fresh_result=True, assumed=True,
           note="indent scopes are specified under C11")
R.contract("clikit.api.io.indent:Indent.__enter__", params={}, returns="ref Indent", assumed=True)
R.contract("clikit.api.io.indent:Indent.__exit__", params={"exc_type": "any", "exc_val": "any", "exc_tb": "any"},
           returns="none", assumed=True, note="returns None: an exception in the block propagates")

R.contract(
    M_APP + ":ConsoleApplication.run",
    params={"args": "ref RawArgs", "input_stream": "none", "output_stream": "none", "error_stream": "none"},
    returns="int",
    requires=["self._config._catch_exceptions", "not self._config._terminate_after_run"],
    ensures=["0 <= result and result <= 255"],
    raises={},
    modifies=["ANY.g_status", "ANY.g_handler_calls", "ANY.g_interrupted"],
    note="with exception catching enabled nothing escapes and the status is in range",
).defaults = {"input_stream": None, "output_stream": None, "error_stream": None}


# ---- Command._do_handle, variant "once": the handler runs exactly once unless a pre-handle listener handled the command
M_ED = "clikit.api.event.event_dispatcher"
M_CFG = "clikit.api.config.config"
R.shape("Event", _propagation_stopped="bool")
R.shape("PreHandleEvent", base="Event", _args="ref Args?", _io="ref IO", _command="ref Command", _handled="bool",
        _status_code="int")
R.shape("EventDispatcher", g_has_pre_handle="bool")
R.shape("Command", _dispatcher="ref EventDispatcher?", g_listener_handled="bool")
R.contract(M_ED + ":EventDispatcher.has_listeners", params={"event_name": "str?"}, returns="bool",
           ensures=["result == self.g_has_pre_handle"], modifies=[], assumed=True,
           note="whether listeners are registered (the registry itself is C12)").defaults = {"event_name": None}
R.contract(M_ED + ":EventDispatcher.dispatch", params={"event_name": "str", "event": "ref PreHandleEvent"},
           returns="ref PreHandleEvent",
           ensures=["event._command.g_listener_handled == event._handled", "result is event"],
           raises={"Exception": "True", "KeyboardInterrupt": "True"},
           modifies=["event._handled", "event._status_code", "event._propagation_stopped", "event._command.g_listener_handled"], assumed=True,
           note="pre-handle listeners are arbitrary: they may mark the event handled, set a status, stop the propagation "
                "or raise; they do not invoke command handlers (ghost g_listener_handled of the command: what they left in the event)")
R.contract(M_CFG + ":Config.handler", params={}, returns="ref object", modifies=[], assumed=True).is_property = True
R.contract(M_CFG + ":Config.handler_method", params={}, returns="str", modifies=[], assumed=True).is_property = True
TAKEN = "(self._dispatcher is not None and self._dispatcher.g_has_pre_handle and self.g_listener_handled)"
R.contract(
    M_CMD + ":Command._do_handle", variant="once",
    params={"args": "ref Args?", "io": "ref IO"},
    returns="any",
    ensures=["self.g_handler_calls == old(self.g_handler_calls) + (0 if %s else 1)" % TAKEN],
    raises={"Exception": "True", "KeyboardInterrupt": "True"},
    ensures_on_raise={"Exception": ["self.g_handler_calls <= old(self.g_handler_calls) + 1"],
                      "KeyboardInterrupt": ["self.g_handler_calls <= old(self.g_handler_calls) + 1"]},
    modifies=["self.g_handler_calls", "self.g_status", "self.g_listener_handled"],
    note="the handler is an opaque callable that counts its invocations in ghost g_handler_calls",
)
DO_HANDLE_ONCE = {"qual": M_CMD + ":Command._do_handle", "tag": "once"}
