"""Shared generators for the bounded tier: command trees, clikit applications built from them,
recording handlers, buffered runs, and the *specification side* of command selection.

Nothing here looks at clikit's resolver: `walk` / `select` are written from the statement of
C03 (properties.jsonl) and DESIGN.md section 5 ("follow leading tokens while they name a
sub-command; then first parsable default, else first default, else the command itself; one
level only").  clikit is imported lazily (inside functions) so the module can be imported
before the checker has arranged sys.path.

Vocabulary
----------
Node      spec-side description of one command config (name, aliases, flags, own arguments,
          children).  `Node.id` is the position path ("0", "0.2", "0.2.1"), stable under JSON.
Tree      list of root nodes (+ optional pseudo node for the built-in `help` command of
          DefaultApplicationConfig).
arity     own positional arguments of a node: "0" none, "?" one optional, "1" one required,
          "*" optional multi-valued, "+" required multi-valued.  Arguments are inherited from
          the parent command (clikit builds the sub-command format on top of the parent's).
"""
import itertools
import json

# ------------------------------------------------------------------------------ tree model
ARITIES = ("0", "?", "1", "*", "+")
INF = 10 ** 9

# tokens used for names and aliases; small on purpose so that the same word names different
# things at different levels ("add add"), differs only in case ("add"/"Add"), or is a prefix
# of another ("ls"/"l")
WORD_POOL = ("add", "Add", "ls", "l", "srv", "run", "rm", "do", "up", "a:b", "s", "x-y")
NOISE = ("zz", "adx", "7", "ad")  # never used as a name or alias

# options every generated application declares globally (so every command accepts them)
FLAG_SPELLINGS = ("--opt", "-o")
VALUE_SPELLINGS = ("--val", "-w")


class Node(object):
    __slots__ = ("name", "aliases", "default", "anonymous", "hidden", "disabled", "arity",
                 "children", "parent", "id", "builtin")

    def __init__(self, name, aliases=(), default=False, anonymous=False, hidden=False, disabled=False,
                 arity="*", children=(), builtin=False):
        self.name = name
        self.aliases = list(aliases)
        self.anonymous = bool(anonymous)
        self.default = bool(default or anonymous)
        self.hidden = bool(hidden)
        self.disabled = bool(disabled)
        self.arity = arity
        self.children = list(children)
        self.parent = None
        self.id = None
        self.builtin = builtin  # the `help` command that DefaultApplicationConfig declares itself

    # -- structure
    def chain(self):
        out = []
        n = self
        while n is not None:
            out.append(n)
            n = n.parent
        return out[::-1]

    def path_names(self):
        return [n.name for n in self.chain()]

    def full_name(self):
        return " ".join(self.path_names())

    def enabled(self):
        """a config is added only if it and all its ancestors are enabled"""
        return all(not n.disabled for n in self.chain())

    def spellings(self):
        return [self.name] + list(self.aliases)

    # -- arguments (inherited along the chain)
    def arg_range(self):
        lo = hi = 0
        for n in self.chain():
            a = n.arity
            if a == "?":
                hi += 1
            elif a == "1":
                lo += 1
                hi += 1
            elif a == "*":
                hi = INF
            elif a == "+":
                lo += 1
                hi = INF
        return lo, min(hi, INF)

    def name_chain(self):
        """command-name elements of the command's argument format: every non-anonymous command on the chain"""
        return [n for n in self.chain() if not n.anonymous]

    def to_json(self):
        d = {"name": self.name}
        if self.aliases:
            d["aliases"] = list(self.aliases)
        for k in ("default", "anonymous", "hidden", "disabled", "builtin"):
            if getattr(self, k):
                d[k] = True
        d["arity"] = self.arity
        if self.children:
            d["children"] = [c.to_json() for c in self.children]
        return d

    @classmethod
    def from_json(cls, d):
        return cls(d["name"], d.get("aliases", ()), d.get("default", False), d.get("anonymous", False),
                   d.get("hidden", False), d.get("disabled", False), d.get("arity", "*"),
                   [cls.from_json(c) for c in d.get("children", ())], d.get("builtin", False))

    def __repr__(self):
        return "<Node %s %s>" % (self.id, self.full_name())


class Tree(object):
    def __init__(self, roots):
        self.roots = list(roots)
        self._number(self.roots, None, "")
        self.nodes = {}
        for n in self.walk_nodes():
            self.nodes[n.id] = n

    def _number(self, nodes, parent, prefix):
        for i, n in enumerate(nodes):
            n.parent = parent
            n.id = "%s%d" % (prefix, i)
            self._number(n.children, n, n.id + ".")

    def walk_nodes(self):
        stack = list(reversed(self.roots))
        while stack:
            n = stack.pop()
            yield n
            stack.extend(reversed(n.children))

    def depth(self):
        return max([len(n.chain()) for n in self.walk_nodes()] or [0])

    def to_json(self):
        return [r.to_json() for r in self.roots]

    @classmethod
    def from_json(cls, j):
        return cls([Node.from_json(d) for d in j])

    def key(self):
        return json.dumps(self.to_json(), sort_keys=True)

    def with_builtin_help(self):
        """the tree as DefaultApplicationConfig sees it: its own `help` command (default, named, one optional
        multi-valued argument) is declared before the generated ones"""
        j = self.to_json()
        return Tree.from_json([{"name": "help", "default": True, "arity": "*", "builtin": True}] + j)

    def well_formed(self):
        """names and aliases pairwise distinct per level (precondition of C03, `add` does not validate);
        argument rules of the format builder respected along every chain"""
        def level_ok(nodes):
            words = [w for n in nodes for w in n.spellings()]
            if len(words) != len(set(words)):
                return False
            return all(level_ok(n.children) for n in nodes)

        def args_ok(n, seen_multi, seen_opt):
            a = n.arity
            if a != "0" and seen_multi:
                return False
            if a in ("1", "+") and seen_opt:
                return False
            seen_multi = seen_multi or a in ("*", "+")
            seen_opt = seen_opt or a in ("?", "*")
            return all(args_ok(c, seen_multi, seen_opt) for c in n.children)

        return level_ok(self.roots) and all(args_ok(r, False, False) for r in self.roots)


# ------------------------------------------------------------------------------ specification of selection
def find(level, token):
    """the enabled, named command of `level` one of whose name/aliases is `token` (well-formed trees: at most one)"""
    for n in level:
        if n.disabled or n.anonymous:
            continue
        if token == n.name or token in n.aliases:
            return n
    return None


def leading_tokens(tokens):
    """longest prefix of tokens that are non-empty, not '--', and do not start with '-'"""
    out = []
    for t in tokens:
        if t == "" or t == "--" or t.startswith("-"):
            break
        out.append(t)
    return out


def walk(roots, leading):
    """follow the leading tokens while they name a (sub-)command; returns (node or None, number of tokens followed)"""
    level = roots
    cur = None
    k = 0
    for t in leading:
        nxt = find(level, t)
        if nxt is None:
            break
        cur = nxt
        level = cur.children
        k += 1
    return cur, k


def positionals(tokens, value_options=VALUE_SPELLINGS):
    """positional tokens of a line built from: words, flags, `--val V` / `-w V` (V not starting with '-'),
    `--val=V`, `-wV`, and a '--' tail.  Written for the lines this module generates, not a general parser."""
    out = []
    i = 0
    n = len(tokens)
    while i < n:
        t = tokens[i]
        if t == "--":
            out.extend(tokens[i + 1:])
            break
        if t.startswith("-") and t != "-":
            if t in value_options and i + 1 < n and not tokens[i + 1].startswith("-") and tokens[i + 1] != "":
                i += 2
                continue
            i += 1
            continue
        out.append(t)
        i += 1
    return out


def n_arguments(node, pos):
    """positional tokens left for the arguments of `node`: the leading positionals that spell, in order, the
    command names of the node's chain are command names, everything after the first mismatch is an argument"""
    k = 0
    for n in node.name_chain():
        if k < len(pos) and (pos[k] == n.name or pos[k] in n.aliases):
            k += 1
        else:
            break
    return len(pos) - k


def parsable(node, tokens):
    lo, hi = node.arg_range()
    return lo <= n_arguments(node, positionals(tokens)) <= hi


SELECT_UNDEFINED = "undefined-command"      # first token names no command
SELECT_NO_DEFAULT = "no-default-command"    # no leading token and the application has no default command


def select(tree, tokens):
    """-> (outcome, node, info).  outcome: "command" (node selected and the line parses for it),
    "unparsable" (node selected, but the line is not acceptable for it: a parse error is due, C02's business),
    SELECT_UNDEFINED, SELECT_NO_DEFAULT"""
    lead = leading_tokens(tokens)
    cur, k = walk(tree.roots, lead)
    info = {"leading": lead, "followed": k}
    if cur is None:
        if lead:
            return SELECT_UNDEFINED, None, info
        cands = [n for n in tree.roots if n.default and not n.disabled]
        if not cands:
            return SELECT_NO_DEFAULT, None, info
        own = None
    else:
        cands = [n for n in cur.children if n.default and not n.disabled]
        own = cur
    info["walked"] = cur.id if cur is not None else None
    info["candidates"] = [c.id for c in cands]
    chosen = None
    for c in cands:
        if parsable(c, tokens):
            chosen = c
            break
    if chosen is None:
        chosen = cands[0] if cands else own
    if chosen is own:
        info["rule"] = "self"
    elif not parsable(chosen, tokens):
        info["rule"] = "first-default-unparsable"
    elif chosen is cands[0]:
        info["rule"] = "first-default"
    else:
        info["rule"] = "later-parsable-default"
    return ("command" if parsable(chosen, tokens) else "unparsable"), chosen, info


# ------------------------------------------------------------------------------ generators of trees
def _draw_arity(rng, seen_multi, seen_opt, weights=None):
    if seen_multi:
        return "0"
    allowed = [a for a in ARITIES if not (a in ("1", "+") and seen_opt)]
    w = weights or {"0": 3, "?": 2, "1": 1, "*": 4, "+": 1}
    return rng.choices(allowed, [w[a] for a in allowed])[0]


def random_tree(rng, max_depth=3, max_fanout=3, permissive=False, words=WORD_POOL, p_default=0.35, p_anonymous=0.35,
                p_hidden=0.15, p_disabled=0.15, p_alias=0.55, arity_weights=None):
    """seeded random well-formed tree.  permissive=True: every root takes an optional multi-valued argument (so
    every line parses for every command) -- used where parsability must not interfere.  arity_weights: relative
    weights of the own-argument kinds, e.g. COMPETING (with p_default high: several default commands per level
    that differ in what they can parse)"""
    def level(depth, seen_multi, seen_opt):
        if depth > max_depth:
            return []
        fan = rng.randint(1, max_fanout) if depth == 1 else rng.choice([0, 0, 1, 2, 2, 3][:3 + max_fanout])
        fan = min(fan, max_fanout)
        pool = list(words)
        rng.shuffle(pool)
        nodes = []
        for _ in range(fan):
            name = pool.pop()
            aliases = []
            while pool and len(aliases) < 2 and rng.random() < p_alias:
                aliases.append(pool.pop())
            default = rng.random() < p_default
            anonymous = default and rng.random() < p_anonymous
            if permissive:
                arity = "*" if depth == 1 else "0"
            else:
                arity = _draw_arity(rng, seen_multi, seen_opt, arity_weights)
            n = Node(name, aliases, default, anonymous, rng.random() < p_hidden, rng.random() < p_disabled, arity)
            n.children = level(depth + 1, seen_multi or arity in ("*", "+"), seen_opt or arity in ("?", "*"))
            nodes.append(n)
        return nodes

    t = Tree(level(1, False, False))
    assert t.well_formed(), t.to_json()
    return t


COMPETING = {"0": 4, "?": 2, "1": 3, "*": 1, "+": 1}


SMALL_LEAF_KINDS = (
    # (default, anonymous, disabled, arity) -- reduced alphabet of the exhaustive small-tree enumeration
    (False, False, False, "*"),
    (False, False, True, "*"),
    (True, False, False, "0"),
    (True, False, False, "*"),
    (True, True, False, "0"),
    (True, True, False, "*"),
)


def small_trees(max_fanout=2, kinds=SMALL_LEAF_KINDS):
    """all trees of depth <= 2 and fan-out <= max_fanout (1..fan roots, 0..fan children each) over the reduced node
    alphabet `kinds`; names fixed per position (root i: "r%d" % i alias "R%d" % i; child j: the SAME words c{j}/C{j} under
    every root, and child 0 is called like root 1 so that a word names different things at different levels).
    A root whose arity is '*' gives its children arity '0' (arguments are inherited)."""
    def mk(kind, name, alias, child=False, parent_multi=False):
        d, a, dis, ar = kind
        if child and parent_multi:
            ar = "0"
        return dict(name=name, aliases=[alias], default=d, anonymous=a, disabled=dis, arity=ar)

    def child_sets(parent_multi):
        for k in range(0, max_fanout + 1):
            for ks in itertools.product(kinds, repeat=k):
                # children that inherit '*' all collapse to arity 0: skip the duplicates
                if parent_multi and any(x[3] == "*" and x[0] for x in ks):
                    continue
                yield [mk(x, ["r1", "c1", "c2"][j], ["R1", "C1", "C2"][j], True, parent_multi) for j, x in enumerate(ks)]

    def roots_of(i):
        for kind in kinds:
            base = mk(kind, "r%d" % i, "R%d" % i)
            for cs in child_sets(base["arity"] == "*"):
                d = dict(base)
                d["children"] = cs
                yield d

    for nroots in range(1, max_fanout + 1):
        for combo in itertools.product(*[list(roots_of(i)) for i in range(nroots)]):
            yield Tree.from_json(list(combo))


# ------------------------------------------------------------------------------ clikit side
class Invocation(object):
    __slots__ = ("node_id", "args", "io", "command", "seen")

    def __init__(self, node_id, args, io, command):
        self.node_id = node_id
        self.args = args
        self.io = io
        self.command = command
        self.seen = {}


class Recorder(object):
    """Log of handler invocations of one application.  `behaviour(invocation)` (optional) is what every handler
    does after recording: its return value / exception is the handler's."""

    def __init__(self, behaviour=None):
        self.calls = []
        self.behaviour = behaviour

    def handler_for(self, node_id):
        return _RecordingHandler(self, node_id)

    def ids(self):
        return [c.node_id for c in self.calls]

    def reset(self):
        del self.calls[:]


class _RecordingHandler(object):
    # deliberately not callable: Config.handler calls callables to obtain the handler
    def __init__(self, recorder, node_id):
        self._recorder = recorder
        self._node_id = node_id

    def handle(self, args, io, command):
        inv = Invocation(self._node_id, args, io, command)
        self._recorder.calls.append(inv)
        if self._recorder.behaviour is not None:
            return self._recorder.behaviour(inv)
        return 0


def arg_name(node):
    return "arg-" + node.id.replace(".", "-")


def add_tree(config, tree, recorder, decorate=None):
    """declare the commands of `tree` on an ApplicationConfig.  Returns {node id: CommandConfig} (disabled ones
    included; builtin nodes excluded).  decorate(node, command_config) may add help texts, options, ..."""
    from clikit.api.args.format import Argument
    from clikit.api.config.command_config import CommandConfig

    flags = {"0": None, "?": Argument.OPTIONAL, "1": Argument.REQUIRED, "*": Argument.OPTIONAL | Argument.MULTI_VALUED,
             "+": Argument.REQUIRED | Argument.MULTI_VALUED}
    out = {}

    def make(node):
        c = CommandConfig(node.name)
        for a in node.aliases:
            c.add_alias(a)
        if node.anonymous:
            c.anonymous()
        elif node.default:
            c.default()
        if node.hidden:
            c.hide()
        if node.disabled:
            c.disable()
        if flags[node.arity] is not None:
            c.add_argument(arg_name(node), flags[node.arity], "argument of %s" % node.id)
        c.set_description("command %s" % node.id)
        c.set_handler(recorder.handler_for(node.id))
        if decorate is not None:
            decorate(node, c)
        out[node.id] = c
        for ch in node.children:
            c.add_sub_command_config(make(ch))
        return c

    for r in tree.roots:
        if r.builtin:
            continue
        config.add_command_config(make(r))
    return out


def add_global_test_options(config):
    """--opt/-o (flag) and --val/-w (required value): declared on the application, hence accepted by every command"""
    from clikit.api.args.format import Option
    config.add_option("opt", "o", Option.NO_VALUE, "a flag")
    config.add_option("val", "w", Option.REQUIRED_VALUE, "a value")


def plain_config(name="app", version="1.0", catch=False):
    """ApplicationConfig with the default resolver and a buffered-stream I/O factory, no built-in command, no
    listeners (the shape used by tests/test_console_aplication.py)"""
    from clikit.api.config.application_config import ApplicationConfig
    from clikit.api.io import IO, Input, Output
    from clikit.resolver.default_resolver import DefaultResolver

    class _Config(ApplicationConfig):
        @property
        def default_command_resolver(self):
            return DefaultResolver()

        @property
        def default_style_set(self):
            from clikit.formatter import DefaultStyleSet
            return DefaultStyleSet()

    c = _Config(name, version)
    c.set_catch_exceptions(catch)
    c.set_terminate_after_run(False)
    c.set_io_factory(lambda app, args, i, o, e: IO(Input(i), Output(o), Output(e)))
    return c


def default_config(name="my-app", version="1.2.3", catch=True):
    from clikit.config.default_application_config import DefaultApplicationConfig
    c = DefaultApplicationConfig(name, version)
    c.set_catch_exceptions(catch)
    c.set_terminate_after_run(False)
    return c


def build_app(tree, kind="plain", recorder=None, catch=False, decorate=None, test_options=True, configure=None):
    """-> (application, recorder, {id: CommandConfig}).  kind "plain" | "default" (DefaultApplicationConfig: use
    tree.with_builtin_help() on the spec side)"""
    from clikit.console_application import ConsoleApplication
    recorder = recorder or Recorder()
    config = plain_config(catch=catch) if kind == "plain" else default_config(catch=catch)
    if test_options:
        add_global_test_options(config)
    configs = add_tree(config, tree, recorder, decorate)
    if configure is not None:
        configure(config)
    return ConsoleApplication(config), recorder, configs


def raw_args(tokens, as_string=False):
    """RawArgs for a token list.  as_string: through StringArgs (only for tokens without blanks/quotes/backslashes)"""
    if as_string:
        from clikit.args.string_args import StringArgs
        return StringArgs(" ".join(tokens))
    from clikit.args.argv_args import ArgvArgs
    return ArgvArgs(["prog"] + list(tokens))


def stringable(tokens):
    return all(t != "" and not any(ch in t for ch in " \t\n'\"\\") for t in tokens)


class RunResult(object):
    __slots__ = ("status", "raised", "out", "err")

    def __init__(self, status, raised, out, err):
        self.status = status
        self.raised = raised
        self.out = out
        self.err = err


class ReadBudgetExceeded(BaseException):
    """raised by the guarded input stream when the code under test keeps reading (e.g. a question that asks for
    ever at end of input); a BaseException so that no `except Exception` of the code under test absorbs it"""


def guarded_input(text="", max_reads=64):
    from clikit.io.input_stream import StringInputStream

    class _GuardedInputStream(StringInputStream):
        reads = 0

        def _count(self):
            self.reads += 1
            if self.reads > max_reads:
                raise ReadBudgetExceeded("more than %d reads from the input stream" % max_reads)

        def read(self, length):
            self._count()
            return StringInputStream.read(self, length)

        def read_line(self, length=None):
            self._count()
            return StringInputStream.read_line(self, length)

    return _GuardedInputStream(text)


def run_buffered(app, tokens, stdin="", as_string=False, catch=(Exception, KeyboardInterrupt), terminal=False):
    """app.run on buffered streams (the input stream gives up after 64 reads by raising ReadBudgetExceeded);
    exceptions of the classes in `catch` that escape run are returned, not raised; terminal: the two output streams
    announce ANSI support"""
    from clikit.io.output_stream import BufferedOutputStream
    out, err = BufferedOutputStream(), BufferedOutputStream()
    if terminal:
        class Capable(BufferedOutputStream):
            def supports_ansi(self):
                return True
        out, err = Capable(), Capable()
    status = raised = None
    try:
        status = app.run(raw_args(tokens, as_string), guarded_input(stdin), out, err)
    except catch as e:
        raised = e
    return RunResult(status, raised, out.fetch(), err.fetch())


# ------------------------------------------------------------------------------ reporting
class Reporter(object):
    """ctx.fail keeps at most 25 failures per check; a defect that fails on many inputs would crowd out the
    others.  Record at most `per_signature` witnesses of one signature per check (the count of all is kept)."""

    def __init__(self, ctx, per_signature=3):
        self.ctx = ctx
        self.per_signature = per_signature
        self.counts = {}

    def fail(self, signature, what, witness=None):
        k = (self.ctx.cur.id, signature)
        self.counts[k] = self.counts.get(k, 0) + 1
        if self.counts[k] <= self.per_signature:
            self.ctx.fail(signature, what, witness)

    def note(self):
        """summary for ctx.done(note=...): signature -> number of failing cases in the current check"""
        mine = dict((sig, n) for (cid, sig), n in self.counts.items() if cid == self.ctx.cur.id)
        if not mine:
            return ""
        return "failing cases by signature: " + "; ".join("%s x%d" % kv for kv in sorted(mine.items()))


# ------------------------------------------------------------------------------ style tags in harness sources
def tags(text):
    """Harness files spell style tags with square brackets and translate them here: "[info]x[/info]" -> the real
    tag.  Reason: clikit's error report tokenises the WHOLE source file of the frames it shows and pushes every line
    through the style-tag parser, so literal tags in a harness that is on the traceback can derail the renderer and
    blur what a check is measuring."""
    return text.replace("[", chr(60)).replace("]", chr(62))
