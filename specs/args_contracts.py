"""Contracts on Args (C01): access by long name, short name or position agrees; defaults on read."""
from pyvc.contracts import REG as R
from . import parser_contracts as pcx  # noqa: F401  (ArgsFormat.get_option, fmt_opt, base_has_option)

M_A = "clikit.api.args.args"
M_F = "clikit.api.args.format.args_format"
A = M_A + ":Args."
VAL = pcx.STORED

R.shape("Args", _fmt="ref ArgsFormat", _options="dict[str,%s]" % VAL, _arguments="dict[str,%s]" % VAL)
R.uf("fmt_arg_by_name", ["ref ArgsFormat", "str"], "ref Argument")
R.uf("fmt_arg_by_pos", ["ref ArgsFormat", "int"], "ref Argument")
R.uf("base_has_argument", ["ref ArgsFormat", "str"], "bool")
R.uf("fmt_has_arg_pos", ["ref ArgsFormat", "int"], "bool")
# well-formed format: position i and the name of the argument at position i denote the same argument
R.contract(
    M_F + ":ArgsFormat.get_argument", params={"name": "str|int", "include_base": "bool"}, returns="ref Argument",
    ensures=[
        "implies(isinstance(name, str), base_has_argument(self, name) and result is fmt_arg_by_name(self, name) and result._name == name)",
        "implies(isinstance(name, int), fmt_has_arg_pos(self, name) and result is fmt_arg_by_pos(self, name))",
        "base_has_argument(self, result._name) and fmt_arg_by_name(self, result._name) is result",
    ],
    raises={"NoSuchArgumentException": "(isinstance(name, str) and not base_has_argument(self, name)) or "
                                       "(isinstance(name, int) and not fmt_has_arg_pos(self, name))"},
    assumed=True, note="lookup in a well-formed format (C06 view): by name or by position",
).defaults = {"include_base": True}
R.contract(
    M_F + ":ArgsFormat.has_argument", params={"name": "str|int", "include_base": "bool"}, returns="bool",
    ensures=["implies(isinstance(name, str), result == base_has_argument(self, name))",
             "implies(isinstance(name, int), result == fmt_has_arg_pos(self, name))"],
    assumed=True,
).defaults = {"include_base": True}

O = "fmt_opt(self._fmt, name)"
R.contract(
    A + "option", params={"name": "str"}, returns=VAL,
    ensures=[
        # the value is a function of the OPTION the name denotes (long or short name alike): the stored value,
        # else the declared default, else False for a value-less option
        "implies(%s._long_name in self._options, result == self._options[%s._long_name])" % (O, O),
        "implies(%s._long_name not in self._options and not (%s._flags & 4), result == %s._default)" % (O, O, O),
        "implies(%s._long_name not in self._options and bool(%s._flags & 4), result == False)" % (O, O),
    ],
    raises={"NoSuchOptionException": "not base_has_option(self._fmt, name)"},
    modifies=[],
)
R.contract(
    A + "is_option_set", params={"name": "str"}, returns="bool",
    ensures=["result == (base_has_option(self._fmt, name) and %s._long_name in self._options)" % O],
    modifies=[],
)
ARG = "(fmt_arg_by_name(self._fmt, name) if isinstance(name, str) else fmt_arg_by_pos(self._fmt, name))"
R.contract(
    A + "argument", params={"name": "str|int"}, returns=VAL,
    ensures=[
        "implies(%s._name in self._arguments, result == self._arguments[%s._name])" % (ARG, ARG),
        "implies(%s._name not in self._arguments, result == %s._default)" % (ARG, ARG),
    ],
    raises={"NoSuchArgumentException": "(isinstance(name, str) and not base_has_argument(self._fmt, name)) or "
                                       "(isinstance(name, int) and not fmt_has_arg_pos(self._fmt, name))"},
    modifies=[],
)
R.contract(
    A + "is_argument_set", params={"name": "str|int"}, returns="bool",
    ensures=["implies(isinstance(name, str), result == (base_has_argument(self._fmt, name) and "
             "fmt_arg_by_name(self._fmt, name)._name in self._arguments))",
             "implies(isinstance(name, int), result == (fmt_has_arg_pos(self._fmt, name) and "
             "fmt_arg_by_pos(self._fmt, name)._name in self._arguments))"],
    modifies=[],
)
# Access agreement follows by congruence: the contracts mention the given name only through the element it denotes
# (fmt_opt / fmt_arg_by_*), and a well-formed format maps the long and the short name of an option, and the position and
# the name of an argument, to the same element (ArgsFormat.get_option / get_argument contracts).

# ---- Args.options(): a snapshot -- the caller gets a NEW dict; the parse result itself is not touched ---------------
R.contract(M_F + ":ArgsFormat.get_options", params={"include_base": "bool"}, returns="odict[str,ref Option]",
           ensures=["fresh(result)"], modifies=[], assumed=True,
           note="the options of the (finished) format as a new ordered dict (C06 view)").defaults = {"include_base": True}
R.local_kinds = getattr(R, "local_kinds", {})
OPTIONS = A + "options"
R.contract(
    OPTIONS, params={"include_defaults": "bool"}, returns="dict[str,%s]" % VAL,
    ensures=[
        "fresh(result)",
        # everything that was set is reported with its value ...
        "all(k in result and result[k] == self._options[k] for k in self._options)",
        # ... and without defaults nothing else is
        "implies(not include_defaults, all(k in self._options for k in result))",
        # asking does not change the answer to `is_option_set` / `options(False)`: the stored map is untouched
        "same_except(self._options)",
    ],
    modifies=[],
)
R.contracts[OPTIONS].defaults = {"include_defaults": True}
R.loop(
    OPTIONS, 0,
    invariants=[
        "fresh(options) and options is not self._options",
        "all(k in options and options[k] == self._options[k] for k in self._options)",
    ],
    modifies=["items(options)"],
    var_kinds={"default": "none|bool|int|real|str|list[str]", "name": "str"},
    fingerprint="option in self._fmt.get_options",
)

# ---- Args.set_option: what is stored is the value converted to the declared type, under the option's LONG name -----
SET_OPTION = A + "set_option"
LN = "%s._long_name" % O
ONE_TYPE = "(bool(%s._flags & 128) + bool(%s._flags & 256) + bool(%s._flags & 512) + bool(%s._flags & 1024)) == 1" % (O, O, O, O)
# (a) an option without a value: set means True, `False` un-sets it; nothing else changes
R.contract(
    SET_OPTION, variant="flag",
    params={"name": "str", "value": "none|bool|int|str"},
    returns="ref Args",
    requires=["base_has_option(self._fmt, name)", "bool(%s._flags & 4)" % O],
    ensures=[
        "implies(value is False, %s not in self._options)" % LN,
        "implies(value is not False, %s in self._options and self._options[%s] == True)" % (LN, LN),
        "same_except(self._options, %s)" % LN,
        "result is self",
    ],
    raises={"NoSuchOptionException": "False"},
    modifies=["items(self._options)"],
)
R.contracts[SET_OPTION + "#flag"].defaults = {"value": True}
# (b) a single-valued option with a value: the stored value has the declared type (or is None for a nullable option given
#     None / 'null'); a value that cannot be converted raises ValueError and stores nothing
R.contract(
    SET_OPTION, variant="scalar",
    params={"name": "str", "value": "none|bool|int|real|str"},
    returns="ref Args",
    requires=["base_has_option(self._fmt, name)", "not (%s._flags & 4) and not (%s._flags & 32)" % (O, O), ONE_TYPE],
    ensures=[
        "%s in self._options" % LN,
        "implies(self._options[%s] is None, bool(%s._flags & 2048) and (value is None or value == 'null'))" % (LN, O),
        "implies(bool(%s._flags & 128), self._options[%s] is None or isinstance(self._options[%s], str))" % (O, LN, LN),
        "implies(bool(%s._flags & 256), self._options[%s] is None or isinstance(self._options[%s], bool))" % (O, LN, LN),
        "implies(bool(%s._flags & 512), self._options[%s] is None or (isinstance(self._options[%s], int) and "
        "not isinstance(self._options[%s], bool)))" % (O, LN, LN, LN),
        "implies(bool(%s._flags & 1024), self._options[%s] is None or isinstance(self._options[%s], float))" % (O, LN, LN),
        "same_except(self._options, %s)" % LN,
        "result is self",
    ],
    raises={"ValueError": "not (%s._flags & 128)" % O},
    raises_modifies=[],
    modifies=["items(self._options)"],
)
SET_OPTION_TARGETS = [{"qual": SET_OPTION, "tag": "flag"}, {"qual": SET_OPTION, "tag": "scalar"}]

# ---- Args.set_argument (single-valued): the converted value is stored under the argument's NAME, by name or by position --
SET_ARGUMENT = A + "set_argument"
AN = "%s._name" % ARG
ONE_TYPE_A = "(bool(%s._flags & 16) + bool(%s._flags & 32) + bool(%s._flags & 64) + bool(%s._flags & 128)) == 1" % (ARG, ARG, ARG, ARG)
EXISTS_A = "((isinstance(name, str) and base_has_argument(self._fmt, name)) or (isinstance(name, int) and fmt_has_arg_pos(self._fmt, name)))"
R.contract(
    SET_ARGUMENT, variant="scalar",
    params={"name": "str|int", "value": "none|bool|int|real|str"},
    returns="ref Args",
    requires=[EXISTS_A, "not (%s._flags & 4)" % ARG, ONE_TYPE_A],
    ensures=[
        "%s in self._arguments" % AN,
        "implies(self._arguments[%s] is None, bool(%s._flags & 256) and (value is None or value == 'null'))" % (AN, ARG),
        "implies(bool(%s._flags & 16), self._arguments[%s] is None or isinstance(self._arguments[%s], str))" % (ARG, AN, AN),
        "implies(bool(%s._flags & 32), self._arguments[%s] is None or isinstance(self._arguments[%s], bool))" % (ARG, AN, AN),
        "implies(bool(%s._flags & 64), self._arguments[%s] is None or (isinstance(self._arguments[%s], int) and "
        "not isinstance(self._arguments[%s], bool)))" % (ARG, AN, AN, AN),
        "implies(bool(%s._flags & 128), self._arguments[%s] is None or isinstance(self._arguments[%s], float))" % (ARG, AN, AN),
        "same_except(self._arguments, %s)" % AN,
        "result is self",
    ],
    raises={"ValueError": "not (%s._flags & 16)" % ARG},
    raises_modifies=[],
    modifies=["items(self._arguments)"],
)
SET_OPTION_TARGETS.append({"qual": SET_ARGUMENT, "tag": "scalar"})
