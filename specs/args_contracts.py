"""Contracts on Args (C01): access by long name, short name or position agrees; defaults on read."""
from pyvc.contracts import REG as R
from . import parser_contracts as pcx  # noqa: F401  (ArgsFormat.get_option, fmt_opt, base_has_option)

M_A = "clikit.api.args.args"
M_F = "clikit.api.args.format.args_format"
A = M_A + ":Args."
VAL = pcx.STORED

R.shape("Args", _fmt="ref ArgsFormat", _options="dict[str,%s]" % VAL, _arguments="dict[str,%s]" % VAL)
R.uf("fmt_arg_by_name", ["ref ArgsFormat", "str"], "ref Argument")
R.uf("fmt_arg_by_pos", ["ref ArgsFormat", "int"], "ref Argument")
R.uf("base_has_argument", ["ref ArgsFormat", "str"], "bool")
R.uf("fmt_has_arg_pos", ["ref ArgsFormat", "int"], "bool")
# well-formed format: position i and the name of the argument at position i denote the same argument
R.contract(
    M_F + ":ArgsFormat.get_argument", params={"name": "str|int", "include_base": "bool"}, returns="ref Argument",
    ensures=[
        "implies(isinstance(name, str), base_has_argument(self, name) and result is fmt_arg_by_name(self, name) and result._name == name)",
        "implies(isinstance(name, int), fmt_has_arg_pos(self, name) and result is fmt_arg_by_pos(self, name))",
        "base_has_argument(self, result._name) and fmt_arg_by_name(self, result._name) is result",
    ],
    raises={"NoSuchArgumentException": "(isinstance(name, str) and not base_has_argument(self, name)) or "
                                       "(isinstance(name, int) and not fmt_has_arg_pos(self, name))"},
    assumed=True, note="lookup in a well-formed format (C06 view): by name or by position",
).defaults = {"include_base": True}
R.contract(
    M_F + ":ArgsFormat.has_argument", params={"name": "str|int", "include_base": "bool"}, returns="bool",
    ensures=["implies(isinstance(name, str), result == base_has_argument(self, name))",
             "implies(isinstance(name, int), result == fmt_has_arg_pos(self, name))"],
    assumed=True,
).defaults = {"include_base": True}

O = "fmt_opt(self._fmt, name)"
R.contract(
    A + "option", params={"name": "str"}, returns=VAL,
    ensures=[
        # the value is a function of the OPTION the name denotes (long or short name alike): the stored value,
        # else the declared default, else False for a value-less option
        "implies(%s._long_name in self._options, result == self._options[%s._long_name])" % (O, O),
        "implies(%s._long_name not in self._options and not (%s._flags & 4), result == %s._default)" % (O, O, O),
        "implies(%s._long_name not in self._options and bool(%s._flags & 4), result == False)" % (O, O),
    ],
    raises={"NoSuchOptionException": "not base_has_option(self._fmt, name)"},
    modifies=[],
)
R.contract(
    A + "is_option_set", params={"name": "str"}, returns="bool",
    ensures=["result == (base_has_option(self._fmt, name) and %s._long_name in self._options)" % O],
    modifies=[],
)
ARG = "(fmt_arg_by_name(self._fmt, name) if isinstance(name, str) else fmt_arg_by_pos(self._fmt, name))"
R.contract(
    A + "argument", params={"name": "str|int"}, returns=VAL,
    ensures=[
        "implies(%s._name in self._arguments, result == self._arguments[%s._name])" % (ARG, ARG),
        "implies(%s._name not in self._arguments, result == %s._default)" % (ARG, ARG),
    ],
    raises={"NoSuchArgumentException": "(isinstance(name, str) and not base_has_argument(self._fmt, name)) or "
                                       "(isinstance(name, int) and not fmt_has_arg_pos(self._fmt, name))"},
    modifies=[],
)
R.contract(
    A + "is_argument_set", params={"name": "str|int"}, returns="bool",
    ensures=["implies(isinstance(name, str), result == (base_has_argument(self._fmt, name) and "
             "fmt_arg_by_name(self._fmt, name)._name in self._arguments))",
             "implies(isinstance(name, int), result == (fmt_has_arg_pos(self._fmt, name) and "
             "fmt_arg_by_pos(self._fmt, name)._name in self._arguments))"],
    modifies=[],
)
# Access agreement follows by congruence: the contracts mention the given name only through the element it denotes
# (fmt_opt / fmt_arg_by_*), and a well-formed format maps the long and the short name of an option, and the position and
# the name of an argument, to the same element (ArgsFormat.get_option / get_argument contracts).

# ---- Args.options(): a snapshot -- the caller gets a NEW dict; the parse result itself is not touched ---------------
R.contract(M_F + ":ArgsFormat.get_options", params={"include_base": "bool"}, returns="odict[str,ref Option]",
           ensures=["fresh(result)"], modifies=[], assumed=True,
           note="the options of the (finished) format as a new ordered dict (C06 view)").defaults = {"include_base": True}
R.local_kinds = getattr(R, "local_kinds", {})
OPTIONS = A + "options"
R.contract(
    OPTIONS, params={"include_defaults": "bool"}, returns="dict[str,%s]" % VAL,
    ensures=[
        "fresh(result)",
        # everything that was set is reported with its value ...
        "all(k in result and result[k] == self._options[k] for k in self._options)",
        # ... and without defaults nothing else is
        "implies(not include_defaults, all(k in self._options for k in result))",
        # asking does not change the answer to `is_option_set` / `options(False)`: the stored map is untouched
        "same_except(self._options)",
    ],
    modifies=[],
)
R.contracts[OPTIONS].defaults = {"include_defaults": True}
R.loop(
    OPTIONS, 0,
    invariants=[
        "fresh(options) and options is not self._options",
        "all(k in options and options[k] == self._options[k] for k in self._options)",
    ],
    modifies=["items(options)"],
    var_kinds={"default": "none|bool|int|real|str|list[str]", "name": "str"},
    fingerprint="option in self._fmt.get_options",
)
