"""Shared generators and oracles for the bounded tier of C01 / C02 / C05.

Everything here is written from the property statements and the interpretation notes of
DESIGN.md section 5 (grammar `spell(fmt, A)`), NOT from the parser's code:

* a *format spec* is a small json-able description of an ArgsFormat (command names with aliases,
  options mode x type x nullable x short x default, arguments kind x type x nullable x default,
  optional split into a base format);
* an *assignment* says which options are given (flag / value / bare optional / list of values) and the
  positional values in order;
* `spell()` turns an assignment into one command line; every free choice (form of every option,
  grouping of short flags, interleaving, command names present / alias / omitted from some point,
  place of `--`) is resolved by a chooser, so the same code enumerates all spellings (TreeChooser)
  or samples them (RandomChooser);
* `expected()` is the oracle: typed values by the declared types, defaults for what is not given;
* `problems()` compares a parse result with the oracle through every observation point the property
  names (options / arguments with and without defaults, access by long / short name, by name / index,
  is_*_set by every way of naming).

clikit is imported lazily (the checker decides which tree is on sys.path).
"""
import hashlib
import itertools
import json

MODES = ("flag", "req", "opt", "multi")
TYPES = ("str", "bool", "int", "float")
ARG_KINDS = ("req", "opt", "multi", "multi_req")

LONGS = ("alpha", "dry-run", "gamma", "v2x", "eps")
SHORTS = ("a", "D", "c", "v", "e")
ARG_NAMES = ("first", "cmd11", "third", "rest", "cmd1", "cmd2", "cmd12", "cmd21")  # incl. names shaped like the placeholder arguments the parser invents for command names
CMD_NAMES = (("server", ("srv",)), ("add", ("plus", "a")))

TYPED_DEFAULT = {"str": "dflt", "bool": True, "int": 5, "float": 2.5}
TYPED_DEFAULT2 = {"str": "d2", "bool": False, "int": 6, "float": 0.5}


# ------------------------------------------------------------------ specs
def opt_spec(long, short, mode, typ="str", nullable=False, default=None):
    return {"long": long, "short": short, "mode": mode, "type": typ, "nullable": bool(nullable), "default": default}


def arg_spec(name, kind, typ="str", nullable=False, default=None):
    return {"name": name, "kind": kind, "type": typ, "nullable": bool(nullable), "default": default}


def fmt_spec(names=(), opts=(), args=(), base=None):
    """base = None or [n_names, n_opts, n_args]: that many leading names / options / arguments live in a base format"""
    return {"names": [[n, list(al)] for n, al in names], "opts": list(opts), "args": list(args),
            "base": list(base) if base else None}


def valid_arg_kinds(kinds):
    """required before optional, multi-valued last"""
    seen_opt = False
    for i, k in enumerate(kinds):
        if k in ("multi", "multi_req") and i != len(kinds) - 1:
            return False
        if k in ("req", "multi_req") and seen_opt:
            return False
        if k in ("opt", "multi"):
            seen_opt = True
    return True


def _option(o):
    from clikit.api.args.format import Option
    f = {"flag": Option.NO_VALUE, "req": Option.REQUIRED_VALUE, "opt": Option.OPTIONAL_VALUE,
         "multi": Option.MULTI_VALUED}[o["mode"]]
    f |= {"str": Option.STRING, "bool": Option.BOOLEAN, "int": Option.INTEGER, "float": Option.FLOAT}[o["type"]]
    if o["nullable"]:
        f |= Option.NULLABLE
    d = o["default"]
    if isinstance(d, list):
        d = list(d)
    if o["mode"] == "flag":
        return Option(o["long"], o["short"], f)
    return Option(o["long"], o["short"], f, None, d)


def _argument(a):
    from clikit.api.args.format import Argument
    f = {"req": Argument.REQUIRED, "opt": Argument.OPTIONAL, "multi": Argument.MULTI_VALUED,
         "multi_req": Argument.MULTI_VALUED | Argument.REQUIRED}[a["kind"]]
    f |= {"str": Argument.STRING, "bool": Argument.BOOLEAN, "int": Argument.INTEGER, "float": Argument.FLOAT}[a["type"]]
    if a["nullable"]:
        f |= Argument.NULLABLE
    d = a["default"]
    if isinstance(d, list):
        d = list(d)
    if a["kind"] in ("req", "multi_req"):
        return Argument(a["name"], f)
    return Argument(a["name"], f, None, d)


def build_format(spec):
    from clikit.api.args.format import ArgsFormat, CommandName
    names = [CommandName(n, list(al)) for n, al in spec["names"]]
    opts = [_option(o) for o in spec["opts"]]
    args = [_argument(a) for a in spec["args"]]
    if spec.get("base"):
        bn, bo, ba = spec["base"]
        base = ArgsFormat(names[:bn] + args[:ba] + opts[:bo])
        return ArgsFormat(names[bn:] + args[ba:] + opts[bo:], base)
    return ArgsFormat(names + args + opts)


def build_command(spec, parser):
    """the same format built by the library from command configs (1 or 2 command names; for 2 names the base part of
    the spec must hold exactly the first name); `parser` is set on every config -> Command.parse uses it"""
    from clikit.api.command.command import Command
    from clikit.api.config.command_config import CommandConfig
    names = spec["names"]
    assert names and len(names) <= 2
    if len(names) == 2:
        assert spec["base"] and spec["base"][0] == 1
        bn, bo, ba = spec["base"]
    else:
        assert not spec["base"]
        bn, bo, ba = 1, len(spec["opts"]), len(spec["args"])

    def fill(cfg, opts, args):
        for o in opts:
            op = _option(o)
            cfg.add_option(op.long_name, op.short_name, op.flags, None, op.default if o["mode"] != "flag" else None)
        for a in args:
            ar = _argument(a)
            cfg.add_argument(ar.name, ar.flags, None, ar.default if a["kind"] in ("opt", "multi") else None)

    top = CommandConfig(names[0][0])
    top.set_aliases(list(names[0][1]))
    fill(top, spec["opts"][:bo], spec["args"][:ba])
    top.set_args_parser(parser)
    if len(names) == 2:
        sub = top.create_sub_command(names[1][0])
        sub.set_aliases(list(names[1][1]))
        fill(sub, spec["opts"][bo:], spec["args"][ba:])
        sub.set_args_parser(parser)
        cmd = Command(top)
        return cmd.get_sub_command(names[1][0])
    return Command(top)


# ------------------------------------------------------------------ values and the typed oracle
_BOOL = {"true": True, "1": True, "yes": True, "on": True, "false": False, "0": False, "no": False, "off": False,
         "": False}


def convert(typ, nullable, s):
    """declared conversion of a command-line string (only called on strings whose conversion is defined)"""
    if nullable and s == "null":
        return None
    if typ == "str":
        return s
    if typ == "bool":
        return _BOOL[s]
    if typ == "int":
        return int(s)
    if typ == "float":
        return float(s)
    raise AssertionError(typ)


def opt_values(typ, nullable):
    """6-value pool of option values (never empty: `--x=` is 'no value')"""
    if typ == "str":
        return ["x", "-x", "a=b", "null", "foo bar", "7"]
    if typ == "int":
        return ["7", "-5", "0", "+3", "007", "null" if nullable else "12"]
    if typ == "float":
        return ["1.5", "-2.5", "0", "1e3", ".5", "null" if nullable else "inf"]
    return ["true", "0", "off", "yes", "1", "null" if nullable else "false"]


def pos_values(typ, nullable):
    """pool of positional values; dash-led ones are only spellable after `--`"""
    if typ == "str":
        return ["x", "", "-x", "null", "--alpha", "-", "--", "foo bar"]
    if typ == "int":
        return ["7", "-5", "0", "+3", "null" if nullable else "12"]
    if typ == "float":
        return ["1.5", "-2.5", "0", "1e3", "null" if nullable else ".5"]
    return ["true", "", "0", "off", "yes", "null" if nullable else "1"]


def canon(v):
    """json-able canonical form that keeps the type (7 != 7.0 != True) and survives nan"""
    if v is None:
        return ["none"]
    if isinstance(v, bool):
        return ["bool", v]
    if isinstance(v, int):
        return ["int", v]
    if isinstance(v, float):
        return ["float", repr(v)]
    if isinstance(v, str):
        return ["str", v]
    if isinstance(v, (list, tuple)):
        return ["list", [canon(x) for x in v]]
    return ["other", repr(v)]


def canon_map(d):
    return dict((str(k), canon(v)) for k, v in d.items())


def distribute(args, p):
    """positional values -> {argument name: value | [values]} (None if p does not fit the arguments)"""
    out = {}
    i = 0
    for a in args:
        if a["kind"] in ("multi", "multi_req"):
            if p[i:]:
                out[a["name"]] = list(p[i:])
            i = len(p)
        elif i < len(p):
            out[a["name"]] = p[i]
            i += 1
    if i != len(p):
        return None
    for a in args:
        if a["kind"] in ("req", "multi_req") and a["name"] not in out:
            return None
    return out


def bare_is_undecided(o):
    """an optional-value option given bare stores its default; when the default is None and the type is not nullable
    the conversion of 'no value' is not defined by the declared type (DESIGN D3 family)"""
    return o["mode"] == "opt" and o["default"] is None and not o["nullable"]


def expected(spec, A):
    """oracle: what options(False/True) and arguments(False/True) must report"""
    o_set, o_all, a_set, a_all = {}, {}, {}, {}
    for o in spec["opts"]:
        g = A["o"].get(o["long"])
        if o["mode"] == "flag":
            dflt = False
        elif o["mode"] == "multi":
            dflt = list(o["default"]) if o["default"] is not None else []
        else:
            dflt = o["default"]
        if g is None:
            o_all[o["long"]] = canon(dflt)
            continue
        if g[0] == "flag":
            v = True
        elif g[0] == "val":
            v = convert(o["type"], o["nullable"], g[1])
        elif g[0] == "bare":
            v = o["default"]
        else:
            v = [convert(o["type"], o["nullable"], s) for s in g[1]]
        o_set[o["long"]] = canon(v)
        o_all[o["long"]] = canon(v)
    given = distribute(spec["args"], A["p"])
    assert given is not None, (spec["args"], A["p"])
    for a in spec["args"]:
        if a["kind"] == "multi":
            dflt = list(a["default"]) if a["default"] is not None else []
        elif a["kind"] == "opt":
            dflt = a["default"]
        else:
            dflt = [] if a["kind"] == "multi_req" else None
        if a["name"] in given:
            g = given[a["name"]]
            if isinstance(g, list):
                v = [convert(a["type"], a["nullable"], s) for s in g]
            else:
                v = convert(a["type"], a["nullable"], g)
            a_set[a["name"]] = canon(v)
            a_all[a["name"]] = canon(v)
        else:
            a_all[a["name"]] = canon(dflt)
    return {"o_set": o_set, "o_all": o_all, "a_set": a_set, "a_all": a_all}


# ------------------------------------------------------------------ choosers
class RandomChooser(object):
    def __init__(self, rng):
        self.rng = rng

    def pick(self, n):
        return self.rng.randrange(n) if n > 1 else 0


class TreeChooser(object):
    """depth-first enumeration of every sequence of choices: run the generator, call advance(), until done"""

    def __init__(self):
        self.path = []
        self.pos = 0
        self.done = False

    def start(self):
        self.pos = 0

    def pick(self, n):
        if n <= 1:
            return 0
        if self.pos < len(self.path):
            i, m = self.path[self.pos]
            assert m == n, "non-deterministic generator"
        else:
            self.path.append([0, n])
            i = 0
        self.pos += 1
        return i

    def advance(self):
        del self.path[self.pos:]
        while self.path and self.path[-1][0] + 1 >= self.path[-1][1]:
            self.path.pop()
        if not self.path:
            self.done = True
        else:
            self.path[-1][0] += 1


# ------------------------------------------------------------------ spelling
def _dash_led(v):
    return v.startswith("-") and v != "-"


def _is_bare_unit(u):
    return u["k"] == "bare" or (u["k"] == "group" and u["tail"] is not None and u["tail"]["k"] == "bare")


def spell(spec, A, ch):
    """One command line that spells assignment A for the format (grammar of DESIGN 5/C01).
    Returns (items, feats): items = list of dicts {k: name|pos|dd|flag|val|bare|group, t: [tokens], ...}"""
    names = spec["names"]
    p = list(A["p"])
    feats = set()
    n = len(names)
    # command names: all present (name or alias each) or omitted from some point on, provided the first remaining
    # positional matches no omitted name
    ks = [n]
    for k in range(n - 1, -1, -1):
        if p and any(p[0] == nm or p[0] in al for nm, al in names[k:]):
            continue
        ks.append(k)
    k = ks[ch.pick(len(ks))]
    if k < n:
        feats.add("names-omitted")
    pos = []
    for nm, al in names[:k]:
        cands = [nm] + list(al)
        j = ch.pick(len(cands))
        if j:
            feats.add("alias")
        pos.append(("name", cands[j]))
    pos += [("pos", v) for v in p]

    # option units
    units = []
    mq = {}
    for o in spec["opts"]:
        g = A["o"].get(o["long"])
        if g is None:
            continue
        if g[0] == "flag":
            units.append({"k": "flag", "o": o})
        elif g[0] == "val":
            assert g[1] != ""
            units.append({"k": "val", "o": o, "v": g[1]})
        elif g[0] == "bare":
            units.append({"k": "bare", "o": o})
        else:
            mq[o["long"]] = list(g[1])
            for _ in g[1]:
                units.append({"k": "mval", "o": o})

    # grouping of short flags, the last of a group may take a value (or be a bare optional)
    sf = [u for u in units if u["k"] == "flag" and u["o"]["short"]]
    tails = []
    seen = set()
    for u in units:
        if u["k"] in ("val", "bare", "mval") and u["o"]["short"] and u["o"]["long"] not in seen:
            seen.add(u["o"]["long"])
            tails.append(u)
    gch = [None]
    if len(sf) >= 2:
        gch.append(("flags", None))
    if sf:
        for t in tails:
            gch.append(("tail", t))
    g = gch[ch.pick(len(gch))]
    if g is not None:
        fl = list(sf)
        if len(fl) >= 2 and ch.pick(2):
            fl.reverse()
        grp = {"k": "group", "flags": fl, "tail": g[1], "o": None}
        drop = set(id(u) for u in fl)
        if g[1] is not None:
            drop.add(id(g[1]))
        first = min(i for i, u in enumerate(units) if id(u) in drop)
        units = [u for u in units if id(u) not in drop]
        units.insert(min(first, len(units)), grp)
        feats.add("group")
        if g[1] is not None:
            feats.add("group-tail")

    # `--`: every dash-led positional has to come after it
    first_dash = len(pos)
    for i, (_, v) in enumerate(pos):
        if _dash_led(v):
            first_dash = i
            break
    dds = []
    if first_dash == len(pos):
        dds.append(None)
    dds += list(range(0, first_dash + 1))
    cut = dds[ch.pick(len(dds))]
    if cut is None:
        before, after, dd = pos, [], False
    else:
        before, after, dd = pos[:cut], pos[cut:], True
        feats.add("dd")

    items = []

    def emit(u):
        kd = u["k"]
        if kd == "group":
            letters = "".join(f["o"]["short"] for f in u["flags"])
            t = u["tail"]
            if t is None:
                forms = [("group", ["-" + letters])]
            elif t["k"] == "bare":
                forms = [("group-bare", ["-" + letters + t["o"]["short"]])]
                feats.add("bare")
            else:
                v = t["v"] if t["k"] == "val" else mq[t["o"]["long"]].pop(0)
                forms = [("group-attached", ["-" + letters + t["o"]["short"] + v])]
                if not v.startswith("-"):
                    forms.append(("group-sep", ["-" + letters + t["o"]["short"], v]))
            f = forms[ch.pick(len(forms))]
            return {"k": "group", "t": f[1], "form": f[0], "longs": [x["o"]["long"] for x in u["flags"]],
                    "tail": (t["o"]["long"] if t else None), "tailkind": (t["k"] if t else None)}
        o = u["o"]
        lg, sh = o["long"], o["short"]
        if kd in ("flag", "bare"):
            forms = [("long", ["--" + lg])]
            if sh:
                forms.append(("short", ["-" + sh]))
            if kd == "bare":
                feats.add("bare")
        else:
            v = u["v"] if kd == "val" else mq[lg].pop(0)
            forms = [("eq", ["--%s=%s" % (lg, v)])]
            if not v.startswith("-"):
                forms.append(("long-sep", ["--" + lg, v]))
            if sh:
                forms.append(("short-attached", ["-" + sh + v]))
                if not v.startswith("-"):
                    forms.append(("short-sep", ["-" + sh, v]))
        f = forms[ch.pick(len(forms))]
        feats.add(f[0])
        return {"k": "val" if kd == "mval" else kd, "t": f[1], "form": f[0], "long": lg}

    rem = list(units)
    bi = 0
    prev_bare = False
    while bi < len(before) or rem:
        cands = []
        if bi < len(before) and not prev_bare:
            cands.append(-1)
        seen = set()
        for idx, u in enumerate(rem):
            if u["k"] == "mval":
                if u["o"]["long"] in seen:
                    continue
                seen.add(u["o"]["long"])
            if _is_bare_unit(u) and bi < len(before):
                # a bare optional-value option is never directly followed by a positional
                if not any((not _is_bare_unit(w)) for w in rem if w is not u):
                    continue
            cands.append(idx)
        c = cands[ch.pick(len(cands))]
        if c == -1:
            kd, v = before[bi]
            bi += 1
            items.append({"k": kd, "t": [v]})
            prev_bare = False
        else:
            u = rem.pop(c)
            if bi > 0:
                feats.add("interleaved")
            items.append(emit(u))
            prev_bare = _is_bare_unit(u)
    if dd:
        items.append({"k": "dd", "t": ["--"]})
        for kd, v in after:
            items.append({"k": kd, "t": [v]})
    return items, feats


def flat(items):
    out = []
    for it in items:
        out.extend(it["t"])
    return out


def all_spellings(spec, A, cap):
    """every spelling (as (items, feats)); stops after `cap`. Returns (list, complete?)"""
    ch = TreeChooser()
    out = []
    while not ch.done:
        ch.start()
        out.append(spell(spec, A, ch))
        ch.advance()
        if len(out) >= cap and not ch.done:
            return out, False
    return out, True


def some_spellings(spec, A, rng, k):
    ch = RandomChooser(rng)
    return [spell(spec, A, ch) for _ in range(k)]


# ------------------------------------------------------------------ assignments
def option_alternatives(o, pool=6, multi_max=2, multi_pool=3):
    """None (not given) + every way an option can be given over the first `pool` values of its type"""
    alts = [None]
    if o["mode"] == "flag":
        return alts + [["flag"]]
    vals = opt_values(o["type"], o["nullable"])[:pool]
    if o["mode"] in ("req", "opt"):
        alts += [["val", v] for v in vals]
        if o["mode"] == "opt":
            alts.append(["bare"])
        return alts
    mv = vals[:multi_pool]
    for ln in range(1, multi_max + 1):
        for seq in itertools.product(mv, repeat=ln):
            alts.append(["multi", list(seq)])
    return alts


def positional_alternatives(args, pool=3, multi_max=2):
    """every tuple of positional values that fits the arguments (required given, optional ones a prefix)"""
    outs = []

    def rec(i, acc):
        if i == len(args):
            outs.append(list(acc))
            return
        a = args[i]
        vals = pos_values(a["type"], a["nullable"])[:pool]
        if a["kind"] in ("multi", "multi_req"):
            lo = 1 if a["kind"] == "multi_req" else 0
            for ln in range(lo, multi_max + 1):
                for seq in itertools.product(vals, repeat=ln):
                    outs.append(list(acc) + list(seq))
            return
        if a["kind"] == "opt":
            outs.append(list(acc))  # stop here: this and all later ones not given
        for v in vals:
            rec(i + 1, acc + [v])

    rec(0, [])
    # dedupe (an optional chain can end at several places with the same tuple)
    seen = set()
    res = []
    for o in outs:
        t = tuple(o)
        if t not in seen and distribute(args, o) is not None:
            seen.add(t)
            res.append(o)
    return res


def all_assignments(spec, pool=6, pos_pool=3, multi_max=2, multi_pool=3):
    oalts = [option_alternatives(o, pool, multi_max, multi_pool) for o in spec["opts"]]
    palts = positional_alternatives(spec["args"], pos_pool, multi_max)
    for combo in itertools.product(*oalts):
        od = dict((o["long"], g) for o, g in zip(spec["opts"], combo) if g is not None)
        for p in palts:
            yield {"o": od, "p": p}


def random_assignment(rng, spec, p_given=0.7):
    od = {}
    for o in spec["opts"]:
        if rng.random() > p_given:
            continue
        if o["mode"] == "flag":
            od[o["long"]] = ["flag"]
            continue
        vals = opt_values(o["type"], o["nullable"])
        if o["mode"] == "opt" and rng.random() < 0.3:
            od[o["long"]] = ["bare"]
        elif o["mode"] == "multi":
            od[o["long"]] = ["multi", [rng.choice(vals) for _ in range(rng.randint(1, 3))]]
        else:
            od[o["long"]] = ["val", rng.choice(vals)]
    p = []
    for a in spec["args"]:
        vals = pos_values(a["type"], a["nullable"])
        if a["type"] == "str":
            vals = vals + [CMD_NAMES[0][0], CMD_NAMES[1][1][0]]
        if a["kind"] == "req":
            p.append(rng.choice(vals))
        elif a["kind"] == "opt":
            if rng.random() < 0.35:
                break
            p.append(rng.choice(vals))
        else:
            lo = 1 if a["kind"] == "multi_req" else 0
            for _ in range(rng.randint(lo, 3)):
                p.append(rng.choice(vals))
    return {"o": od, "p": p}


# ------------------------------------------------------------------ formats
def option_variants():
    """every value mode x type x nullable x short-name presence x default (None / typed) of one option"""
    out = []
    for mode in MODES:
        for typ in TYPES:
            for nullable in (False, True):
                for short in (True, False):
                    if mode == "flag":
                        defaults = [None]
                    elif mode == "multi":
                        defaults = [None, [TYPED_DEFAULT[typ], TYPED_DEFAULT2[typ]]]
                    else:
                        defaults = [None, TYPED_DEFAULT[typ]]
                    for d in defaults:
                        out.append((mode, typ, nullable, short, d))
    return out


def mk_opt(i, mode, typ, nullable, short, default):
    return opt_spec(LONGS[i], SHORTS[i] if short else None, mode, typ, nullable, default)


def arg_default(kind, typ, typed):
    if not typed or kind in ("req", "multi_req"):
        return None
    if kind == "multi":
        return [TYPED_DEFAULT[typ], TYPED_DEFAULT2[typ]]
    return TYPED_DEFAULT[typ]


def random_format(rng, max_opts=5, max_args=4):
    no = rng.randint(0, max_opts)
    opts = []
    for i in range(no):
        mode = rng.choice(MODES)
        typ = rng.choice(TYPES)
        nullable = rng.random() < 0.4
        short = rng.random() < 0.7
        typed = rng.random() < 0.5
        if mode == "flag":
            d = None
        elif mode == "multi":
            d = [TYPED_DEFAULT[typ], TYPED_DEFAULT2[typ]] if typed else None
        else:
            d = TYPED_DEFAULT[typ] if typed else None
        opts.append(mk_opt(i, mode, typ, nullable, short, d))
    na = rng.randint(0, max_args)
    while True:
        kinds = [rng.choice(ARG_KINDS) for _ in range(na)]
        if valid_arg_kinds(kinds):
            break
    names_pool = list(ARG_NAMES)
    rng.shuffle(names_pool)
    args = []
    for i, kd in enumerate(kinds):
        typ = rng.choice(TYPES)
        args.append(arg_spec(names_pool[i], kd, typ, rng.random() < 0.4, arg_default(kd, typ, rng.random() < 0.5)))
    nn = rng.randint(0, 2)
    names = CMD_NAMES[:nn]
    base = None
    if rng.random() < 0.4:
        base = [rng.randint(0, nn), rng.randint(0, no), rng.randint(0, na)]
    return fmt_spec(names, opts, args, base)


def fid(spec):
    """short content hash of a format spec (case keys)"""
    return hashlib.blake2b(json.dumps(spec, sort_keys=True).encode(), digest_size=6).hexdigest()


def fmt_nontrivial(spec):
    return bool(spec["opts"] or spec["args"] or spec["names"])


# ------------------------------------------------------------------ running the real code and comparing
def raw_args(tokens):
    from clikit.args import ArgvArgs
    return ArgvArgs(["prog"] + list(tokens))


def new_parser():
    from clikit.args import DefaultArgsParser
    return DefaultArgsParser()


def exc_site(e):
    """ExcType@innermost function: a stable, coarse identification of where an exception came from"""
    tb = e.__traceback__
    name = "?"
    while tb is not None:
        name = tb.tb_frame.f_code.co_name
        tb = tb.tb_next
    return "%s@%s" % (type(e).__name__, name)


def views(args):
    """the four dictionary views of a parse result, canonical"""
    return {"o_set": canon_map(args.options(False)), "o_all": canon_map(args.options(True)),
            "a_set": canon_map(args.arguments(False)), "a_all": canon_map(args.arguments(True))}


def parse_outcome(parser, fmt, tokens, lenient, raw=None):
    """('ok', views, args) | ('exc', type name, message, site, exception)"""
    raw = raw if raw is not None else raw_args(tokens)
    if _HANGS[0] >= 6:
        # parse() has stopped coming back on this tree (recorded six times, with witnesses): the remaining cases are not
        # run -- the check has to end and report
        return ("exc", "DoesNotReturn", "not run: parse() did not return in six earlier cases", "DoesNotReturn@parse", None)
    try:
        with time_limit(PARSE_TIME_LIMIT_S if _HANGS[0] < 2 else 0.3):
            args = parser.parse(raw, fmt, lenient)
    except ParseDoesNotReturn as e:
        _HANGS[0] += 1  # (after two observations the watchdog gets short: the check must still end)
        # a parse that does not come back is an observation like any other outcome (and never the expected one)
        return ("exc", "DoesNotReturn", "parse() did not return within %d s" % PARSE_TIME_LIMIT_S, "DoesNotReturn@parse", e)
    except Exception as e:  # the call under test: every exception class is an observation
        return ("exc", type(e).__name__, str(e), exc_site(e), e)
    return ("ok", views(args), args)


PARSE_TIME_LIMIT_S = 5
_HANGS = [0]


class ParseDoesNotReturn(Exception):
    pass


class time_limit(object):
    """SIGALRM watchdog around one call of the code under test (main thread only; elsewhere it is a no-op)"""

    def __init__(self, seconds):
        self.seconds = seconds
        self.armed = False

    def __enter__(self):
        import signal
        import threading
        if threading.current_thread() is threading.main_thread() and hasattr(signal, "setitimer"):
            def on_alarm(signum, frame):
                raise ParseDoesNotReturn()
            self.old = signal.signal(signal.SIGALRM, on_alarm)
            signal.setitimer(signal.ITIMER_REAL, self.seconds)
            self.armed = True
        return self

    def __exit__(self, *a):
        if self.armed:
            import signal
            signal.setitimer(signal.ITIMER_REAL, 0)
            signal.signal(signal.SIGALRM, self.old)
        return False


def outcome_key(out):
    """comparable / json-able part of an outcome"""
    if out[0] == "ok":
        return ["ok", out[1]]
    return ["exc", out[1], out[2]]


def _call(fn, *a):
    try:
        return ("ok", fn(*a))
    except Exception as e:  # accessor of the real code under test
        return ("exc", exc_site(e))


def _first_diff(exp, got):
    for k in sorted(set(exp) | set(got)):
        if exp.get(k) != got.get(k):
            return k
    return None


def _opt_class(spec, long, A):
    for o in spec["opts"]:
        if o["long"] == long:
            g = A["o"].get(long)
            how = g[0] if g else "unset"
            if how == "bare" and bare_is_undecided(o):
                return "bare-optional-none-default|%s" % o["type"]
            return "%s-%s-%s" % (how, o["mode"], o["type"])
    return "undefined-name"


def _arg_class(spec, name, A):
    for a in spec["args"]:
        if a["name"] == name:
            return "%s-%s" % (a["kind"], a["type"])
    return "undefined-name"


def undecided_bare(spec, A):
    return [o for o in spec["opts"] if A["o"].get(o["long"]) == ["bare"] and bare_is_undecided(o)]


def problems(spec, A, out):
    """compare one parse outcome of a line that spells A with the oracle.
    Returns a list of (signature class, text); empty = the property holds on this case."""
    if out[0] == "exc":
        und = undecided_bare(spec, A)
        site = out[3].split("@")[1]
        typ = {"parse_int": "int", "parse_float": "float", "parse_boolean": "bool"}.get(site)
        if typ and "None" in out[2] and any(o["type"] == typ for o in und):
            # bare optional-value option, default None, non-nullable int/float/bool: 'no value' has no conversion to the
            # declared type, so there is no assignment to recover (outside the quantifier of C01).  The documented
            # outcome for a value that does not convert is ValueError; anything else (D3: TypeError) is reported.
            if out[1] == "ValueError" and '"None"' in out[2]:
                return []
            return [("bare-optional-none-default|%s|%s" % (typ, out[1]),
                     "a well-formed line did not parse: %s: %s" % (out[1], out[2]))]
        return [("raises|%s" % out[3], "a well-formed line did not parse: %s: %s" % (out[1], out[2]))]
    exp = expected(spec, A)
    got = out[1]
    args = out[2]
    res = []
    und = set(o["long"] for o in undecided_bare(spec, A))
    for view in ("o_set", "o_all"):
        e = dict(exp[view])
        g = dict(got[view])
        for lg in und:
            # default None + non-nullable type: only str has a defined rendering of 'no value' ("null"); accept both
            if lg in g and g[lg] in (["none"], ["str", "null"]) and lg in e:
                g[lg] = e[lg]
        k = _first_diff(e, g)
        if k is not None:
            res.append(("options-differ|%s" % _opt_class(spec, k, A),
                        "options(%s): %s is %r, the line spells %r" % (view == "o_all", k, g.get(k), e.get(k))))
            break
    for view in ("a_set", "a_all"):
        k = _first_diff(exp[view], got[view])
        if k is not None:
            res.append(("arguments-differ|%s" % _arg_class(spec, k, A),
                        "arguments(%s): %s is %r, the line spells %r" % (view == "a_all", k, got[view].get(k), exp[view].get(k))))
            break
    if res:
        return res
    # access by long name, short name, position agree with the views
    for o in spec["opts"]:
        lg, sh = o["long"], o["short"]
        want = got["o_all"].get(lg)
        is_set = lg in got["o_set"]
        r = _call(args.option, lg)
        if r[0] != "ok" or canon(r[1]) != want:
            res.append(("access|option-by-long", "option(%r) gives %r, options() has %r" % (lg, r, want)))
        r = _call(args.is_option_set, lg)
        if r != ("ok", is_set):
            res.append(("access|is_option_set-by-long", "is_option_set(%r) gives %r, expected %r" % (lg, r, is_set)))
        if sh:
            r = _call(args.option, sh)
            if r[0] != "ok" or canon(r[1]) != want:
                res.append(("access|option-by-short", "option(%r) gives %r, option(%r) has %r" % (sh, r, lg, want)))
            r = _call(args.is_option_set, sh)
            if r != ("ok", is_set):
                res.append(("access|is_option_set-by-short",
                            "is_option_set(%r) gives %r but is_option_set(%r) is %r" % (sh, r, lg, is_set)))
    for i, a in enumerate(spec["args"]):
        nm = a["name"]
        want = got["a_all"].get(nm)
        is_set = nm in got["a_set"]
        r = _call(args.argument, nm)
        if r[0] != "ok" or canon(r[1]) != want:
            res.append(("access|argument-by-name", "argument(%r) gives %r, arguments() has %r" % (nm, r, want)))
        r = _call(args.is_argument_set, nm)
        if r != ("ok", is_set):
            res.append(("access|is_argument_set-by-name", "is_argument_set(%r) gives %r, expected %r" % (nm, r, is_set)))
        r = _call(args.argument, i)
        if r[0] != "ok" or canon(r[1]) != want:
            res.append(("access|argument-by-index", "argument(%d) gives %r, argument(%r) has %r" % (i, r, nm, want)))
        r = _call(args.is_argument_set, i)
        if r != ("ok", is_set):
            res.append(("access|is_argument_set-by-index",
                        "is_argument_set(%d) gives %r but is_argument_set(%r) is %r" % (i, r, nm, is_set)))
    # one report per class
    seen = set()
    uniq = []
    for s, w in res:
        if s not in seen:
            seen.add(s)
            uniq.append((s, w))
    return uniq


class SigLimiter(object):
    """ctx.fail keeps 25 failures per check: keep at most `per` per signature so that every class is recorded"""

    def __init__(self, ctx, per=2):
        self.ctx = ctx
        self.per = per
        self.count = {}

    def fail(self, signature, what, witness):
        c = self.count.get(signature, 0)
        self.count[signature] = c + 1
        if c < self.per:
            self.ctx.fail(signature, what, witness)

    def note(self):
        if not self.count:
            return ""
        return "failing cases per signature: " + ", ".join("%s x%d" % kv for kv in sorted(self.count.items()))


# ------------------------------------------------------------------ C02: token soup and single-fault mutations
SOUP_ALPHABET = ["", "-", "--", "---", "--=", "-=",
                 "--flag", "--flag=1", "-f", "--req", "--req=5", "-r", "-rx", "--opt", "--opt=", "-o",
                 "--multi=x", "--nope", "--nope=1", "-z", "-fo", "-fzr", "-5", "null", "word", "7"]


def soup_formats():
    """small formats for the soup: the option names of the alphabet in every mode, types varied over the formats;
    arguments none / required / typed / multi-valued; command names; base format"""
    def opts(rt, ot, mt, onull=False, odef=None, shorts=True):
        s = (lambda c: c) if shorts else (lambda c: None)
        return [opt_spec("flag", s("f"), "flag"), opt_spec("req", s("r"), "req", rt),
                opt_spec("opt", s("o"), "opt", ot, onull, odef), opt_spec("multi", s("m"), "multi", mt)]
    return [
        ("empty", fmt_spec()),
        ("options-only", fmt_spec((), opts("int", "str", "str"))),
        ("one-required-arg", fmt_spec((), opts("str", "int", "float", onull=True), [arg_spec("first", "req")])),
        ("typed-args", fmt_spec((), opts("float", "int", "int"),
                                [arg_spec("first", "req", "int"), arg_spec("second", "opt", "bool", True)])),
        ("name-multi-arg", fmt_spec(CMD_NAMES[:1], opts("bool", "bool", "bool", odef=True),
                                    [arg_spec("rest", "multi", "str")])),
        ("names-base", fmt_spec((("word", ("w",)), ("add", ("7",))), opts("str", "float", "str", odef=2.5, shorts=False),
                                [arg_spec("first", "req"), arg_spec("cmd11", "opt", "float")], base=[1, 2, 1])),
    ]


def derived_alphabet(spec, rng):
    """adversarial tokens built from the format's own names"""
    al = ["", "-", "--", "---", "--=", "-=", "-5", "null", "word", "7", "--nope", "--nope=1", "-Z", "true", "abc"]
    shorts = ""
    for o in spec["opts"]:
        lg, sh = o["long"], o["short"]
        al += ["--" + lg, "--%s=" % lg, "--%s=%s" % (lg, rng.choice(opt_values(o["type"], o["nullable"]))), "--%s=abc" % lg]
        if sh:
            shorts += sh
            al += ["-" + sh, "-%s%s" % (sh, rng.choice(["1", "x", "=", "-"])), "--" + sh]
    if shorts:
        al += ["-" + shorts, "-" + shorts[::-1], "-" + shorts[0] + "Z" + shorts[1:]]
    for n, aliases in spec["names"]:
        al += [n] + list(aliases)
    return al


PARSE_ERRORS = ("CannotParseArgsException", "NoSuchOptionException")
STRICT_ALLOWED = PARSE_ERRORS + ("ValueError",)


def soup_problems(strict, lenient):
    """oracle of the soup: returns list of (signature class, text)"""
    res = []
    if strict[0] == "exc" and strict[1] not in STRICT_ALLOWED:
        res.append(("escape|%s|strict" % strict[3], "strict parse raised %s: %s" % (strict[1], strict[2])))
    if lenient[0] == "exc":
        if lenient[1] in PARSE_ERRORS:
            res.append(("lenient-raises-parse-error|%s" % lenient[3], "lenient parse raised %s: %s" % (lenient[1], lenient[2])))
        elif lenient[1] != "ValueError":
            res.append(("escape|%s|lenient" % lenient[3], "lenient parse raised %s: %s" % (lenient[1], lenient[2])))
    if strict[0] == "ok":
        if lenient[0] != "ok":
            if lenient[1] == "ValueError":
                res.append(("lenient-differs|raises-ValueError", "strict parse succeeds, lenient raises %s" % lenient[2]))
        elif lenient[1] != strict[1]:
            res.append(("lenient-differs|result", "strict gives %r, lenient gives %r" % (strict[1], lenient[1])))
    return res


def _item_bare(it):
    return it["k"] == "bare" or (it["k"] == "group" and it.get("tailkind") == "bare")


MUTATION_KINDS = ("drop-required", "surplus", "unknown-option", "unknown-in-group", "flag-value", "strip-value",
                  "bad-value")


def mutations(spec, A, items, ch):
    """single-fault mutations of a valid spelled line: list of (kind, variant, tokens, expected exception class name).
    Every mutation keeps the rest of the line a valid spelling."""
    out = []
    args = spec["args"]
    opts = dict((o["long"], o) for o in spec["opts"])
    p = A["p"]
    has_multi = any(a["kind"] in ("multi", "multi_req") for a in args)
    dd_at = next((i for i, it in enumerate(items) if it["k"] == "dd"), len(items))

    def toks(its):
        return flat(its)

    # 1. drop a required token: only required arguments are given, drop the last positional
    n_req = sum(1 for a in args if a["kind"] in ("req", "multi_req"))
    if n_req and len(p) == n_req:
        idx = max(i for i, it in enumerate(items) if it["k"] == "pos")
        out.append(("drop-required", "last-positional", toks(items[:idx] + items[idx + 1:]), "CannotParseArgsException"))

    # 2. one surplus positional (format without multi-valued argument, every argument given)
    if not has_multi and len(p) == len(args):
        its = list(items)
        extra = {"k": "pos", "t": ["surplus"]}
        if its and _item_bare(its[-1]):
            # keep the rule 'a bare optional-value option is never directly followed by a positional'
            its.insert(len(its) - 1, extra)
            if len(its) >= 3 and _item_bare(its[-3]):
                its = None
        else:
            its.append(extra)
        if its is not None:
            out.append(("surplus", "positional", toks(its), "CannotParseArgsException"))

    # 3. an unknown option at a unit boundary before `--`
    unk = ["--nope", "--nope=1", "-Z", "-Zx"]
    # a known name behind more than two dashes names no option ('---verbose' is the long option '-verbose')
    for o in spec["opts"][:2]:
        unk += ["---" + o["long"], "----%s=1" % o["long"]] + (["---" + o["short"]] if o["short"] else [])
    at = ch.pick(dd_at + 1)
    tok = unk[ch.pick(len(unk))]
    its = list(items)
    its.insert(at, {"k": "unk", "t": [tok]})
    out.append(("unknown-option", "long" if tok.startswith("--") else "short", toks(its), "NoSuchOptionException"))
    for i, it in enumerate(items):
        if it["k"] == "group" and it["form"] == "group":
            t = it["t"][0]
            its = list(items)
            its[i] = dict(it, t=[t[:2] + "Z" + t[2:]])
            out.append(("unknown-in-group", "middle", toks(its), "NoSuchOptionException"))
            break

    # 4. a value attached to a flag
    for i, it in enumerate(items):
        if it["k"] == "flag":
            for variant, t in (("eq-value", "--%s=1" % it["long"]), ("eq-empty", "--%s=" % it["long"])):
                its = list(items)
                its[i] = dict(it, t=[t])
                out.append(("flag-value", variant, toks(its), "CannotParseArgsException"))
            break

    # 5. a required option value stripped
    for i, it in enumerate(items):
        if it["k"] == "val" and opts[it["long"]]["mode"] in ("req", "multi"):
            its = list(items)
            its[i] = dict(it, t=["--%s=" % it["long"]])
            out.append(("strip-value", "eq-empty", toks(its), "CannotParseArgsException"))
            nxt = items[i + 1]["k"] if i + 1 < len(items) else None
            if nxt not in ("pos", "name"):
                o = opts[it["long"]]
                forms = ["--" + o["long"]] + (["-" + o["short"]] if o["short"] else [])
                its = list(items)
                its[i] = dict(it, t=[forms[ch.pick(len(forms))]])
                out.append(("strip-value", "bare", toks(its), "CannotParseArgsException"))
            # ... and a lone dash behind the bare option is not its value either (no token that starts with a dash is)
            o = opts[it["long"]]
            forms = ["--" + o["long"]] + (["-" + o["short"]] if o["short"] else [])
            its = list(items)
            its[i] = dict(it, t=[forms[ch.pick(len(forms))], "-"])
            out.append(("strip-value", "bare-then-lone-dash", toks(its), "CannotParseArgsException"))
            break

    # 6. a value that does not convert to the declared type
    done = False
    for i, it in enumerate(items):
        if it["k"] == "val" and opts[it["long"]]["type"] != "str" and it["form"] in ("eq", "long-sep"):
            bad = "1.5" if opts[it["long"]]["type"] == "int" and ch.pick(2) else "abc"
            its = list(items)
            if it["form"] == "eq":
                its[i] = dict(it, t=["--%s=%s" % (it["long"], bad)])
            else:
                its[i] = dict(it, t=[it["t"][0], bad])
            out.append(("bad-value", "option-%s" % opts[it["long"]]["type"], toks(its), "ValueError"))
            done = True
            break
    if not done:
        given = distribute(args, p) or {}
        pi = 0
        pos_idx = [i for i, it in enumerate(items) if it["k"] == "pos"]
        for a in args:
            if a["name"] not in given:
                break
            cnt = len(given[a["name"]]) if isinstance(given[a["name"]], list) else 1
            if a["type"] != "str":
                its = list(items)
                its[pos_idx[pi]] = {"k": "pos", "t": ["abc"]}
                out.append(("bad-value", "argument-%s" % a["type"], toks(its), "ValueError"))
                break
            pi += cnt
    return out


# ------------------------------------------------------------------ C05: what must not change
def format_listing(fmt):
    """deep, canonical listing of a format and its bases (names, aliases, options, arguments, defaults, flags)"""
    out = []
    f = fmt
    depth = 0
    while f is not None and depth < 8:
        for inc in (False, True):
            out.append(["names", inc, [[c.string, list(c.aliases)] for c in f.get_command_names(inc)]])
            out.append(["options", inc, [[k, o.long_name, o.short_name, o.flags, canon(o.default)]
                                         for k, o in f.get_options(inc).items()]])
            out.append(["arguments", inc, [[k, a.name, a.flags, canon(a.default)] for k, a in f.get_arguments(inc).items()]])
        f = f.base_format
        depth += 1
    return out
