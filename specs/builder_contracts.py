"""Contracts on ArgsFormatBuilder (C06): every addition is rejected with the builder unchanged, or extends it by
exactly the element and keeps the name tables consistent."""
from pyvc.contracts import REG as R
from . import format_contracts as fc  # noqa: F401

M_B = "clikit.api.args.format.args_format_builder"
M_F = "clikit.api.args.format.args_format"
B = M_B + ":ArgsFormatBuilder."

R.shape("ArgsFormat", external=True)
R.shape(
    "ArgsFormatBuilder",
    _base_format="ref ArgsFormat?",
    _options="dict[str,ref Option]", _options_by_short_name="dict[str,ref Option]",
    _command_options="dict[str,ref CommandOption]", _command_options_by_short_name="dict[str,ref CommandOption]",
    _has_multi_valued_arg="bool", _hash_optional_arg="bool",
    g_argnames="dict[str,bool]",
)
# the base format is seen through its queries only: uninterpreted (but fixed) views
R.uf("base_has_option", ["ref ArgsFormat", "str"], "bool")
R.uf("base_has_command_option", ["ref ArgsFormat", "str"], "bool")
R.uf("base_has_argument", ["ref ArgsFormat", "str"], "bool")
R.uf("base_has_multi", ["ref ArgsFormat"], "bool")
R.uf("base_has_optional", ["ref ArgsFormat"], "bool")
for meth, uf in (("has_option", "base_has_option"), ("has_command_option", "base_has_command_option"),
                 ("has_argument", "base_has_argument")):
    R.contract(M_F + ":ArgsFormat." + meth, params={"name": "str?", "include_base": "bool"}, returns="bool",
               # the views are those of the format INCLUDING its bases: a call that passes include_base=False is outside
               # the contract (no call site of the package does) -- decided where the lookups are verified (C06)
               requires=["[C06] include_base"],
               ensures=["result == (name is not None and %s(self, name))" % uf], assumed=True,
               note="query of the (finished, immutable) base format").defaults = {"include_base": True}
R.contract(M_F + ":ArgsFormat.has_multi_valued_argument", params={"include_base": "bool"}, returns="bool",
           ensures=["result == base_has_multi(self)"], assumed=True).defaults = {"include_base": True}
R.contract(M_F + ":ArgsFormat.has_optional_argument", params={"include_base": "bool"}, returns="bool",
           ensures=["result == base_has_optional(self)"], assumed=True).defaults = {"include_base": True}

BASE = "(include_base and self._base_format is not None and %s(self._base_format, name))"
HAS_OPT = ("(name is not None and ((name in self._options) or (name in self._options_by_short_name) or " + BASE % "base_has_option" + "))")
HAS_COPT = ("(name is not None and ((name in self._command_options) or (name in self._command_options_by_short_name) or "
            + BASE % "base_has_command_option" + "))")
c = R.contract(B + "has_option", params={"name": "str?", "include_base": "bool"}, returns="bool",
               ensures=["result == " + HAS_OPT], modifies=[])
c.defaults = {"include_base": True}
c = R.contract(B + "has_command_option", params={"name": "str?", "include_base": "bool"}, returns="bool",
               ensures=["result == " + HAS_COPT], modifies=[])
c.defaults = {"include_base": True}


def taken(n):
    """name n (an expression) identifies an option or a command option of the builder or its bases, in the OLD state"""
    t = ("(%s is not None and ((%s in self._options) or (%s in self._options_by_short_name) or "
         "(%s in self._command_options) or (%s in self._command_options_by_short_name) or "
         "(self._base_format is not None and (base_has_option(self._base_format, %s) or "
         "base_has_command_option(self._base_format, %s)))))") % ((n,) * 7)
    return t


REJECT_OPT = "%s or %s" % (taken("option._long_name"), taken("option._short_name"))
R.contract(
    B + "add_option",
    params={"option": "ref Option"},
    returns="ref ArgsFormatBuilder",
    # representation: the name tables are distinct objects (created separately by the constructor / set_*)
    requires=["len(option._long_name) >= 2", "self._options is not self._options_by_short_name"],
    ensures=[
        # accepted only when neither name is taken anywhere in the format or its bases ...
        "not old(%s)" % REJECT_OPT,
        # ... and then the tables grow by exactly this option
        "option._long_name in self._options and self._options[option._long_name] is option",
        "implies(option._short_name is not None and len(option._short_name) > 0, "
        "option._short_name in self._options_by_short_name and self._options_by_short_name[option._short_name] is option)",
        "same_except(self._options, option._long_name)",
        "same_except(self._options_by_short_name, option._short_name)",
        "result is self",
    ],
    raises={"CannotAddOptionException": REJECT_OPT},
    raises_modifies=[],   # a rejected addition leaves the builder unchanged
    modifies=["items(self._options)", "items(self._options_by_short_name)"],
)

# ---- arguments: ordering rules ------------------------------------------------------------------
R.contract(B + "has_argument", params={"name": "str", "include_base": "bool"}, returns="bool",
           ensures=["result == ((name in self.g_argnames) or (include_base and self._base_format is not None and "
                    "base_has_argument(self._base_format, name)))"],
           assumed=True, note="own argument names as a ghost set (the ordered table is outside the engine's subset)"
           ).defaults = {"include_base": True}
MULTI = "(self._has_multi_valued_arg or (self._base_format is not None and base_has_multi(self._base_format)))"
OPTL = "(self._hash_optional_arg or (self._base_format is not None and base_has_optional(self._base_format)))"
REJECT_ARG = ("((argument._name in self.g_argnames) or (self._base_format is not None and "
              "base_has_argument(self._base_format, argument._name)) or %s or (bool(argument._flags & 1) and %s))" % (MULTI, OPTL))
R.shape("ArgsFormatBuilder", _arguments="dict[str,ref Argument]")
R.contract(
    B + "add_argument",
    params={"argument": "ref Argument"},
    returns="ref ArgsFormatBuilder",
    ensures=[
        "not old(%s)" % REJECT_ARG,
        # at most one multi-valued argument and it is last; no required argument after an optional one:
        # the flags that later additions consult are exactly the facts about the arguments added so far
        "self._has_multi_valued_arg == (old(self._has_multi_valued_arg) or bool(argument._flags & 4))",
        "self._hash_optional_arg == (old(self._hash_optional_arg) or bool(argument._flags & 2))",
        "argument._name in self._arguments and self._arguments[argument._name] is argument",
        "same_except(self._arguments, argument._name)",
    ],
    raises={"CannotAddArgumentException": REJECT_ARG},
    raises_modifies=[],
    modifies=["self._has_multi_valued_arg", "self._hash_optional_arg", "items(self._arguments)"],
)


# ---- command options: name, short name and every alias are checked before anything is inserted -----------------------
CO = "command_option"
LA = CO + "._long_aliases"
SA = CO + "._short_aliases"
REJECT_COPT = " or ".join([
    taken(CO + "._long_name"),
    "any(%s for j in range(len(%s)))" % (taken(LA + "[j]"), LA),
    taken(CO + "._short_name"),
    "any(%s for j in range(len(%s)))" % (taken(SA + "[j]"), SA),
])
ACO = B + "add_command_option"
D = "self._command_options"
DS = "self._command_options_by_short_name"
R.contract(
    ACO,
    params={CO: "ref CommandOption"},
    returns="ref ArgsFormatBuilder",
    requires=["len(%s._long_name) >= 2" % CO, "%s is not %s" % (D, DS)],
    ensures=[
        # accepted only when neither the names nor any alias is taken anywhere in the format or its bases ...
        "not old(%s)" % REJECT_COPT,
        # ... and then long name and long aliases, short name and short aliases all denote this command option
        "%s._long_name in %s and %s[%s._long_name] is %s" % (CO, D, D, CO, CO),
        "all(%s[j] in %s and %s[%s[j]] is %s for j in range(len(%s)))" % (LA, D, D, LA, CO, LA),
        "implies(%s._short_name is not None and len(%s._short_name) > 0, %s._short_name in %s and %s[%s._short_name] is %s)"
        % (CO, CO, CO, DS, DS, CO, CO),
        "all(%s[j] in %s and %s[%s[j]] is %s for j in range(len(%s)))" % (SA, DS, DS, SA, CO, SA),
        # nothing else in the tables changes
        "same_except(%s, %s._long_name, seq(%s))" % (D, CO, LA),
        "same_except(%s, %s._short_name, seq(%s))" % (DS, CO, SA),
        "result is self",
    ],
    raises={"CannotAddOptionException": REJECT_COPT},
    raises_modifies=[],   # a rejected addition leaves the builder unchanged
    modifies=["items(%s)" % D, "items(%s)" % DS],
)
R.loop(ACO, 0, invariants=["all(not %s for j in range(_i))" % taken("long_aliases[j]")], modifies=[],
       fingerprint=" in long_aliases")
R.loop(ACO, 1, invariants=["all(not %s for j in range(_i))" % taken("short_aliases[j]")], modifies=[],
       fingerprint=" in short_aliases")
INS_LONG = ["long_name in %s and %s[long_name] is %s" % (D, D, CO),
            "all(long_aliases[j] in %s and %s[long_aliases[j]] is %s for j in range(_i))" % (D, D, CO),
            "same_except(%s, long_name, first(long_aliases, _i))" % D]
R.loop(ACO, 2, invariants=INS_LONG, modifies=["items(%s)" % D], fingerprint=" in long_aliases")
INS_SHORT = ["all(long_aliases[j] in %s and %s[long_aliases[j]] is %s for j in range(len(long_aliases)))" % (D, D, CO),
             "all(short_aliases[j] in %s and %s[short_aliases[j]] is %s for j in range(_i))" % (DS, DS, CO),
             "same_except(%s, short_name, first(short_aliases, _i))" % DS,
             "implies(short_name is not None and len(short_name) > 0, short_name in %s and %s[short_name] is %s)" % (DS, DS, CO)]
R.loop(ACO, 3, invariants=INS_SHORT, modifies=["items(%s)" % DS], fingerprint=" in short_aliases")


# ---- queries that hand out a table: a NEW dict every time, the builder's own tables stay as they are --------------------
R.contract(M_F + ":ArgsFormat.get_options", params={"include_base": "bool"}, returns="dict[str,ref Option]",
           ensures=["fresh(result)"], modifies=[], assumed=True,
           note="the options of the (finished, immutable) base format as a new dict").defaults = {"include_base": True}
R.contract(M_F + ":ArgsFormat.get_arguments", params={"include_base": "bool"}, returns="dict[str,ref Argument]",
           ensures=["fresh(result)"], modifies=[], assumed=True,
           note="the arguments of the base format as a new dict").defaults = {"include_base": True}
GET_OPTIONS = B + "get_options"
R.contract(
    GET_OPTIONS, params={"include_base": "bool"}, returns="dict[str,ref Option]",
    ensures=[
        "fresh(result)",   # never the builder's own table: additions made later do not show up in what was handed out
        "all(k in result for k in self._options)",
        "implies(not include_base or self._base_format is None, all(k in self._options for k in result))",
        "same_except(self._options)",
    ],
    modifies=[],
)
R.contracts[GET_OPTIONS].defaults = {"include_base": True}
GET_ARGUMENTS = B + "get_arguments"
R.contract(
    GET_ARGUMENTS, params={"include_base": "bool"}, returns="dict[str,ref Argument]",
    ensures=[
        "fresh(result)",
        # own arguments are all listed, each under its name, and they win over the base on a (rejected-at-insertion) clash
        "all(k in result and result[k] is self._arguments[k] for k in self._arguments)",
        "implies(not include_base or self._base_format is None, all(k in self._arguments for k in result))",
        "same_except(self._arguments)",
    ],
    modifies=[],
)
R.contracts[GET_ARGUMENTS].defaults = {"include_base": True}

F = M_F + ":ArgsFormat."
