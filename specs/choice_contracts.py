"""C18: SelectChoiceValidator.validate returns only members of the choices (a list of members when multi-select)."""
from pyvc.contracts import REG as R

M_CQ = "clikit.ui.components.choice_question"
R.shape("ChoiceQuestion", external=True, _multi_select="bool", _error_message="str")
R.shape("SelectChoiceValidator", _question="ref ChoiceQuestion", _values="list[str]")
R.contract(M_CQ + ":ChoiceQuestion.supports_multiple_choices", params={}, returns="bool",
           ensures=["result == self._multi_select"], modifies=[])
R.contract(M_CQ + ":ChoiceQuestion.error_message", params={}, returns="str", ensures=["result == self._error_message"],
           modifies=[]).is_property = True
VALIDATE = M_CQ + ":SelectChoiceValidator.validate"
R.abstractions = getattr(R, "abstractions", {})
R.abstractions[VALIDATE] = [
    ("re.match(*", "bool",
     "the format check of a multi-select answer (a regular expression over the typed text) accepts or rejects: what comes "
     "back when it accepts is what the contract is about; which texts it accepts is checked by the bounded tier"),
    ("' or '.join((str(r) for r in results))", "str", "text of the ambiguity message (not part of the contract)"),
    ("[choice.strip() for choice in selected.split(',')]", "list[str]",
     "the typed values of a multi-select answer: some list of strings (how the answer is split is checked by the bounded tier)"),
]
R.local_kinds = getattr(R, "local_kinds", {})
R.local_kinds[VALIDATE] = {"multiselect_choices": "list[str]", "results": "list[int]"}
VALS = "seq(self._values)"
for variant, sel_kind, multi in (("single_str", "str", False), ("single_int", "int", False), ("multi", "str", True)):
    R.contract(
        VALIDATE, variant=variant,
        params={"selected": sel_kind},
        returns="list[str]" if multi else "str",
        requires=["self._question._multi_select == %s" % multi],
        ensures=(
            # every element of the answer is one of the choices, and there is at least one
            ["subset(result, self._values)"]
            if multi else
            # the answer is one of the choices
            ["result in self._values"]
        ),
        raises={"ValueError": "True"},
        modifies=[],
        note="whatever is typed, what comes back is a member of the choices (or ValueError); which member (value first, "
             "then index; ambiguity) is checked by the bounded tier",
    )
    # inner loop (1): collects the positions of equal choices; outer loop (0): one typed value at a time
    R.loop(VALIDATE, 1, invariants=["True"], modifies=["items(results)"], fingerprint="(key, choice) in enumerate")
    R.loop(
        VALIDATE, 0,
        invariants=["len(multiselect_choices) == _i",
                    "subset(multiselect_choices, self._values)"],
        modifies=["items(multiselect_choices)"],
        var_kinds={"value": "str", "result": "bool|str", "results": "list[int]"},
        fingerprint="value in selected_choices",
    )
TARGETS = [{"qual": VALIDATE, "tag": v} for v in ("single_str", "single_int", "multi")]
# the two getters the validator reads are verified themselves (they return the stored fields), not assumed
TARGETS += [M_CQ + ":ChoiceQuestion.supports_multiple_choices", M_CQ + ":ChoiceQuestion.error_message"]
