"""Contracts on the event dispatcher (C12): propagation and call order of one dispatch."""
import z3

from pyvc.contracts import REG as R
from pyvc.kinds import Kind, parse_kind
from pyvc.state import V, Out, VNONE

M_ED = "clikit.api.event.event_dispatcher"
DD = M_ED + ":EventDispatcher._do_dispatch"

R.shape("Event", _propagation_stopped="bool", g_log="seq[fn]")
R.shape("EventDispatcher")

N = "(len(event.g_log) - len(old(event.g_log)))"
R.contract(
    DD,
    params={"listeners": "list[fn]", "event_name": "str", "event": "ref Event"},
    ensures=[
        # the listeners called are a prefix of the (already ordered) list, each once, in order ...
        "0 <= %s and %s <= len(listeners)" % (N, N),
        "event.g_log == old(event.g_log) + seq(listeners)[:%s]" % N,
        # ... and the prefix ends only at the end of the list or because propagation was stopped
        "%s == len(listeners) or event._propagation_stopped" % N,
        # an event that arrives already stopped reaches no listener
        "implies(old(event._propagation_stopped), %s == 0)" % N,
    ],
    raises={"Exception": "True"},
    modifies=["event.g_log", "event._propagation_stopped"],
)
R.loop(
    DD, 0,
    invariants=[
        "event.g_log == old(event.g_log) + seq(listeners)[:_i]",
        "implies(old(event._propagation_stopped), _i == 0)",
        "implies(_i == 0, event._propagation_stopped == old(event._propagation_stopped))",
    ],
    modifies=["event.g_log", "event._propagation_stopped"],
    fingerprint="listener in listeners",
)


def opaque_listener(E, st, fn, args, kwargs):
    """a listener is an arbitrary callable: it is recorded in the ghost call log of the event, may stop the
    propagation (or not), may raise; it does not touch the dispatcher's tables"""
    E.trusted.add("opaque callable (listener): logs itself in the event's ghost call log, sets the propagation flag "
                  "arbitrarily, returns None or any boolean, may raise; touches nothing else")
    ev = args[0]
    logk = parse_kind("seq[fn]")
    cur = E._read_alt(st, ev.t, "g_log", logk)
    s1 = E.write_field(st, ev, "g_log", logk, V(logk, z3.Concat(cur.t, z3.Unit(fn.t))))
    b = z3.Bool(__import__("pyvc.state", fromlist=["fresh_name"]).fresh_name("stopped"))
    s1 = E.write_field(s1, ev, "_propagation_stopped", Kind("bool"), V(Kind("bool"), b))
    s2, e = E.mk_exc(s1, "Exception")
    e.aux["abstract"] = True
    # what it returns is its own business too (None, a boolean, ...): the dispatcher must not read anything into it
    rb = z3.Bool(__import__("pyvc.state", fromlist=["fresh_name"]).fresh_name("listener_result"))
    return [Out("ok", s1, VNONE), Out("ok", s1, V(Kind("bool"), rb)), Out("raise", s2, e)]

# ---------------------------------------------------------------- registration
R.shape("EventDispatcher", _listeners="dict[str,dict[int,list[fn]]]", _sorted="dict[str,list[fn]]")
AL = M_ED + ":EventDispatcher.add_listener"
HAD = "old(event_name in self._listeners and priority in self._listeners[event_name])"
c = R.contract(
    AL,
    params={"event_name": "str", "listener": "fn", "priority": "int"},
    ensures=[
        # cache coherence: the sorted view of this event is dropped, so the next dispatch sorts again
        "event_name not in self._sorted",
        "event_name in self._listeners and priority in self._listeners[event_name]",
        # the listener is appended after those registered earlier with the same priority
        "implies(%s, seq(self._listeners[event_name][priority]) == "
        "old(seq(self._listeners[event_name][priority])) + [listener])" % HAD,
        "implies(not %s, seq(self._listeners[event_name][priority]) == seq([listener]))" % HAD,
    ],
    modifies=["items(self._listeners)", "items(self._sorted)"],
    note="frame of the nested tables is not checked (declared coarse); the other events' tables are covered by the bounded tier",
)
c.defaults = {"priority": 0}
c.no_frame = True
