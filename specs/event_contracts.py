"""Contracts on the event dispatcher (C12): propagation and call order of one dispatch."""
import z3

from pyvc.contracts import REG as R
from pyvc.kinds import Kind, parse_kind
from pyvc.state import V, Out, VNONE

M_ED = "clikit.api.event.event_dispatcher"
DD = M_ED + ":EventDispatcher._do_dispatch"

R.shape("Event", _propagation_stopped="bool", g_log="seq[fn]")
R.shape("EventDispatcher")

N = "(len(event.g_log) - len(old(event.g_log)))"
R.contract(
    DD,
    params={"listeners": "list[fn]", "event_name": "str", "event": "ref Event"},
    ensures=[
        # the listeners called are a prefix of the (already ordered) list, each once, in order ...
        "0 <= %s and %s <= len(listeners)" % (N, N),
        "event.g_log == old(event.g_log) + seq(listeners)[:%s]" % N,
        # ... and the prefix ends only at the end of the list or because propagation was stopped
        "%s == len(listeners) or event._propagation_stopped" % N,
        # an event that arrives already stopped reaches no listener
        "implies(old(event._propagation_stopped), %s == 0)" % N,
    ],
    raises={"Exception": "True"},
    modifies=["event.g_log", "event._propagation_stopped"],
)
R.loop(
    DD, 0,
    invariants=[
        "event.g_log == old(event.g_log) + seq(listeners)[:_i]",
        "implies(old(event._propagation_stopped), _i == 0)",
        "implies(_i == 0, event._propagation_stopped == old(event._propagation_stopped))",
    ],
    modifies=["event.g_log", "event._propagation_stopped"],
    fingerprint="listener in listeners",
)


def opaque_listener(E, st, fn, args, kwargs):
    """a listener is an arbitrary callable: it is recorded in the ghost call log of the event, may stop the
    propagation (or not), may raise; it does not touch the dispatcher's tables"""
    E.trusted.add("opaque callable (listener): logs itself in the event's ghost call log, sets the propagation flag "
                  "arbitrarily, returns None or any boolean, may raise; touches nothing else")
    ev = args[0]
    logk = parse_kind("seq[fn]")
    cur = E._read_alt(st, ev.t, "g_log", logk)
    s1 = E.write_field(st, ev, "g_log", logk, V(logk, z3.Concat(cur.t, z3.Unit(fn.t))))
    b = z3.Bool(__import__("pyvc.state", fromlist=["fresh_name"]).fresh_name("stopped"))
    s1 = E.write_field(s1, ev, "_propagation_stopped", Kind("bool"), V(Kind("bool"), b))
    s2, e = E.mk_exc(s1, "Exception")
    e.aux["abstract"] = True
    # what it returns is its own business too (None, a boolean, ...): the dispatcher must not read anything into it
    rb = z3.Bool(__import__("pyvc.state", fromlist=["fresh_name"]).fresh_name("listener_result"))
    return [Out("ok", s1, VNONE), Out("ok", s1, V(Kind("bool"), rb)), Out("raise", s2, e)]

# ---------------------------------------------------------------- registration
R.shape("EventDispatcher", _listeners="dict[str,dict[int,list[fn]]]", _sorted="dict[str,list[fn]]")
AL = M_ED + ":EventDispatcher.add_listener"
HAD = "old(event_name in self._listeners and priority in self._listeners[event_name])"
c = R.contract(
    AL,
    params={"event_name": "str", "listener": "fn", "priority": "int"},
    ensures=[
        # cache coherence: the sorted view of this event is dropped, so the next dispatch sorts again
        "event_name not in self._sorted",
        "event_name in self._listeners and priority in self._listeners[event_name]",
        # the listener is appended after those registered earlier with the same priority
        "implies(%s, seq(self._listeners[event_name][priority]) == "
        "old(seq(self._listeners[event_name][priority])) + [listener])" % HAD,
        "implies(not %s, seq(self._listeners[event_name][priority]) == seq([listener]))" % HAD,
    ],
    modifies=["items(self._listeners)", "items(self._sorted)"],
    note="frame of the nested tables is not checked (declared coarse); the other events' tables are covered by the bounded tier",
)
c.defaults = {"priority": 0}
c.no_frame = True

# ---------------------------------------------------------------- lookup of the ordered view and one whole dispatch
# `_sorted[e]` is a cache of the order computed from `_listeners[e]`.  What keeps it coherent is proved in three pieces:
# add_listener drops the entry of the event it registers for (above); get_listeners computes the view whenever there is
# no entry and hands out exactly the cached list otherwise (below); and nothing else in the class writes either table
# (structural obligation `EventDispatcher.frame.table_writers`).  The order itself (sorted() by priority) is bounded.
R.shape("EventDispatcher", g_sorts="int", g_last_sorted="str")
SL = M_ED + ":EventDispatcher._sort_listeners"
R.contract(
    SL, params={"event_name": "str"},
    requires=["event_name in self._listeners"],
    ensures=["event_name in self._sorted", "self.g_sorts == old(self.g_sorts) + 1", "self.g_last_sorted == event_name",
             "same_except(self._sorted, event_name)"],
    modifies=["items(self._sorted)", "self.g_sorts", "self.g_last_sorted"],
    assumed=True,
    note="builds the ordered view of one event from its priority buckets (sorted(), external: the order is checked by the "
         "bounded tier); ghost: counts the computations and remembers the event of the last one",
)
GL = M_ED + ":EventDispatcher.get_listeners"
R.contract(
    GL, variant="named",
    params={"event_name": "str"},
    returns="list[fn]",
    ensures=[
        "implies(event_name not in self._listeners, len(result) == 0)",
        # what is handed out is the cached view of THIS event ...
        "implies(event_name in self._listeners, event_name in self._sorted and result is self._sorted[event_name])",
        # ... computed now if there was none (e.g. dropped by a registration since the last dispatch) ...
        "implies(event_name in self._listeners and old(event_name not in self._sorted), "
        "self.g_sorts == old(self.g_sorts) + 1 and self.g_last_sorted == event_name)",
        # ... and nothing is recomputed or replaced otherwise
        "implies(event_name not in self._listeners or old(event_name in self._sorted), self.g_sorts == old(self.g_sorts))",
        "same_except(self._sorted, event_name)",
    ],
    modifies=["items(self._sorted)", "self.g_sorts", "self.g_last_sorted"],
)
HL = M_ED + ":EventDispatcher.has_listeners"
R.contract(
    HL, variant="named",
    params={"event_name": "str"},
    returns="bool",
    ensures=["result == (event_name in self._listeners and len(self._listeners[event_name]) > 0)"],
    modifies=[],
)
DP = M_ED + ":EventDispatcher.dispatch"
ND = "(len(result.g_log) - len(old(event.g_log)))"
R.contract(
    DP, variant="given_event",
    params={"event_name": "str", "event": "ref Event"},
    returns="ref Event",
    ensures=[
        "result is event",
        # no listener of this event: nobody is called
        "implies(event_name not in self._listeners, %s == 0)" % ND,
        # otherwise: a prefix of the ordered view of THIS event, each listener once and in order, ending only at the end of
        # the view or because propagation was stopped
        "implies(event_name in self._listeners, event_name in self._sorted and 0 <= %s and %s <= len(self._sorted[event_name]) "
        "and event.g_log == old(event.g_log) + seq(self._sorted[event_name])[:%s] "
        "and (%s == len(self._sorted[event_name]) or event._propagation_stopped))" % (ND, ND, ND, ND),
        "implies(old(event._propagation_stopped), %s == 0)" % ND,
    ],
    raises={"Exception": "True"},
    modifies=["items(self._sorted)", "self.g_sorts", "self.g_last_sorted", "event.g_log", "event._propagation_stopped"],
)
TARGETS_LOOKUP = [{"qual": GL, "tag": "named"}, {"qual": HL, "tag": "named"}, {"qual": DP, "tag": "given_event"}]


def structural():
    """who writes the two tables of the dispatcher (AST of the working tree)"""
    import ast

    from pyvc import frontend

    P = frontend.Program()
    ci = P.module(M_ED).classes["EventDispatcher"]
    allowed = {
        "_listeners": {"__init__": {"assign"}, "add_listener": {"store-item", "call:append"}},
        "_sorted": {"__init__": {"assign"}, "add_listener": {"del-item"}, "_sort_listeners": {"store-item", "call:append"}},
    }
    mutators = {"append", "extend", "insert", "pop", "remove", "clear", "update", "setdefault", "popitem", "sort", "reverse",
                "__setitem__", "__delitem__"}

    def table_of(x):
        """name of the table an expression is rooted at (self._listeners[...][...]), else None"""
        while isinstance(x, (ast.Subscript, ast.Call, ast.Attribute)):
            if isinstance(x, ast.Attribute) and isinstance(x.value, ast.Name) and x.value.id == "self" and x.attr in allowed:
                return x.attr
            x = x.func if isinstance(x, ast.Call) else x.value
        return None

    bad = []
    for m, fn in ci.methods.items():
        aliases = {}
        for n in ast.walk(fn):
            acts = []
            if isinstance(n, (ast.Assign, ast.AugAssign, ast.AnnAssign, ast.Delete)):
                tg = n.targets if isinstance(n, (ast.Assign, ast.Delete)) else [n.target]
                for t in tg:
                    for e in (t.elts if isinstance(t, (ast.Tuple, ast.List)) else [t]):
                        if isinstance(e, ast.Attribute) and isinstance(e.value, ast.Name) and e.value.id == "self" and e.attr in allowed:
                            acts.append((e.attr, "del" if isinstance(n, ast.Delete) else "assign"))
                        elif isinstance(e, ast.Subscript) and table_of(e.value):
                            acts.append((table_of(e.value), "del-item" if isinstance(n, ast.Delete) else "store-item"))
                # a table (or a part of it) bound to a local name could be written through that name
                if isinstance(n, ast.Assign) and table_of(n.value) and not isinstance(n.value, ast.Call):
                    for t in n.targets:
                        if isinstance(t, ast.Name):
                            aliases[t.id] = table_of(n.value)
            if isinstance(n, ast.Call) and isinstance(n.func, ast.Attribute) and n.func.attr in mutators:
                tb = table_of(n.func.value)
                if tb is None and isinstance(n.func.value, ast.Name) and n.func.value.id in aliases:
                    tb = aliases[n.func.value.id]
                if tb:
                    acts.append((tb, "call:" + n.func.attr))
            for tb, act in acts:
                if act not in allowed[tb].get(m, ()):
                    bad.append("%s: %s of self.%s (line %d)" % (m, act, tb, n.lineno))
    extra = sorted(a for a in {x.attr for fn in ci.methods.values() for x in ast.walk(fn)
                               if isinstance(x, ast.Attribute) and isinstance(x.value, ast.Name) and x.value.id == "self"}
                   if a not in allowed and a not in ci.methods)
    return [{
        "name": "C12.EventDispatcher.frame.table_writers", "kind": "frame",
        "text": "the registration table is written by __init__ and add_listener only, the cache of ordered views by __init__, "
                "_sort_listeners (fills the view of one event) and add_listener (drops the view of one event) only",
        "status": "proved" if not bad else "failed", "note": "; ".join(bad[:6]),
    }, {
        "name": "C12.EventDispatcher.frame.no_other_state", "kind": "frame",
        "text": "the dispatcher keeps no state besides the registration table and the cache of ordered views",
        "status": "proved" if not extra else "failed", "note": ", ".join("self." + a for a in extra[:6]),
    }]

# ---------------------------------------------------------------- registration through the configuration
# The configuration hands listeners to ITS dispatcher: the one that was installed (whatever it holds so far), a new one
# only if there is none.  The application and its commands dispatch on config.dispatcher, so a listener that lands on
# another dispatcher object is never called.
M_ACFG = "clikit.api.config.application_config"
R.shape("ApplicationConfig", _dispatcher="ref EventDispatcher?")
AEL = M_ACFG + ":ApplicationConfig.add_event_listener"
DISP = "self._dispatcher"
c = R.contract(
    AEL,
    params={"event_name": "str", "listener": "fn", "priority": "int"},
    returns="ref ApplicationConfig",
    ensures=[
        "result is self",
        "self._dispatcher is not None",
        "implies(old(self._dispatcher) is not None, self._dispatcher is old(self._dispatcher))",
        "implies(old(self._dispatcher) is None, fresh(self._dispatcher))",
        # ... and the listener is registered there (the clauses of add_listener, restated for the dispatcher of the config)
        "event_name in self._dispatcher._listeners and priority in self._dispatcher._listeners[event_name]",
        "event_name not in self._dispatcher._sorted",
    ],
    modifies=["self._dispatcher", "items(self._dispatcher._listeners)", "items(self._dispatcher._sorted)", "ANY._listeners", "ANY._sorted"],
)
c.defaults = {"priority": 0}
c.no_frame = True
SED = M_ACFG + ":ApplicationConfig.set_event_dispatcher"
R.contract(SED, params={"dispatcher": "ref EventDispatcher"}, returns="ref ApplicationConfig",
           ensures=["result is self", "self._dispatcher is dispatcher"], modifies=["self._dispatcher"])
R.contract(M_ED + ":EventDispatcher.__init__", params={}, ensures=["len(self._listeners) == 0", "len(self._sorted) == 0"],
           modifies=["self._listeners", "self._sorted"])
TARGETS_CONFIG = [AEL, SED, M_ED + ":EventDispatcher.__init__"]

# ---------------------------------------------------------------- what a listener may do to a pre-handle event
# Marking the command as handled and setting the status are not stopping the propagation: the listeners behind the one that
# handles the command are still called (C12: a dispatch stops after the first listener that STOPS PROPAGATION).
M_PHE = "clikit.api.event.pre_handle_event"
R.shape("PreHandleEvent", base="Event", _handled="bool", _status_code="int")
R.contract(M_PHE + ":PreHandleEvent.handled", params={"handled": "bool"},
           ensures=["self._handled == handled"], modifies=["self._handled"])
R.contract(M_PHE + ":PreHandleEvent.set_status_code", params={"status_code": "int"},
           ensures=["self._status_code == status_code"], modifies=["self._status_code"])
R.contract("clikit.api.event.event:Event.stop_propagation", params={}, ensures=["self._propagation_stopped"],
           modifies=["self._propagation_stopped"])
TARGETS_EVENTS = [M_PHE + ":PreHandleEvent.handled", M_PHE + ":PreHandleEvent.set_status_code",
                  "clikit.api.event.event:Event.stop_propagation"]
