"""Contracts on the args-format element classes (C07; used by C01, C02, C06, C13)."""
from pyvc.contracts import REG as R

M_ABS = "clikit.api.args.format.abstract_option"
M_OPT = "clikit.api.args.format.option"
M_ARG = "clikit.api.args.format.argument"
M_COPT = "clikit.api.args.format.command_option"
M_STR = "clikit.utils.string"

VALUE = "none|bool|int|real|str|list[str]"

R.shape("AbstractOption", _long_name="str", _short_name="str?", _flags="flags", _description="str?")
R.shape("Option", base="AbstractOption", _value_name="str", _default=VALUE)
R.shape("CommandOption", base="AbstractOption", _long_aliases="list[str]", _short_aliases="list[str]")
R.shape("Argument", _name="str", _flags="flags", _description="str?", _default=VALUE)
R.shape("CommandName", _string="str", _aliases="list[str]")

# ---- the documented contradictions (taken from the property statement) ----------------------
R.spec_fn("many_types", [("f", "flags"), ("s", "int"), ("b", "int"), ("i", "int"), ("fl", "int")], "False", "bool")
R.spec_fn(
    "opt_types_conflict",
    [("f", "flags")],
    "(f & 128 and (f & 256 or f & 512 or f & 1024)) or (f & 256 and (f & 512 or f & 1024)) or (f & 512 and f & 1024)",
    "bool",
)
R.spec_fn(
    "opt_conflict",
    [("f", "flags")],
    "(f & 1 and f & 2) or (f & 4 and (f & 8 or f & 16 or f & 32)) or (f & 16 and f & 32) or opt_types_conflict(f)",
    "bool",
)
R.spec_fn("opt_valueless", [("f", "flags")], "f & 4 or not (f & 8 or f & 16 or f & 32)", "bool")
R.spec_fn("strip2", [("s", "str")], "s[2:] if s.startswith('--') else s", "str")
R.spec_fn("strip1", [("s", "str")], "s[1:] if s.startswith('-') else s", "str")
# [a-zA-Z][a-zA-Z0-9-]+ written as three conjuncts (first character, all characters, length): the equivalent form
# that the string solvers decide; the equivalence itself is elementary (and exercised by the bounded name table)
R.spec_fn("long_ok", [("s", "str")],
          "len(s) >= 2 and fullmatch('[a-zA-Z]', s[:1]) and fullmatch('[a-zA-Z0-9\\\\-]+', s)", "bool")
R.spec_fn("short_ok", [("s", "str")], "fullmatch('[a-zA-Z]', s)", "bool")
R.spec_fn("argname_ok", [("s", "str")],
          "len(s) >= 1 and fullmatch('[a-zA-Z]', s[:1]) and fullmatch('[a-zA-Z0-9\\\\-]+', s)", "bool")

OPT_NAMES_BAD = (
    "(not isinstance(long_name, str)) or (not long_ok(strip2(long_name))) or "
    "(short_name is None and bool(flags & 2)) or "
    "(short_name is not None and ((not isinstance(short_name, str)) or not short_ok(strip1(short_name))))"
)
OPT_DEFAULT_BAD = (
    "(default is not None and opt_valueless(flags)) or "
    "(bool(flags & 32) and default is not None and not isinstance(default, list))"
)
OPT_BAD = "opt_conflict(flags) or (%s) or (%s)" % (OPT_NAMES_BAD, OPT_DEFAULT_BAD)

# normalised flag word: defaults added, nothing else touched
NORM_OPT = (
    "(((flags | (0 if flags & 3 else (2 if short_name is not None else 1)))"
    " | (0 if flags & 60 else 4)) | (0 if flags & 1920 else 128)) | (8 if flags & 32 else 0)"
)

OPT_PARAMS = {
    "long_name": "str|none|int",
    "short_name": "str|none|int",
    "flags": "flags",
    "description": "str?",
    "default": "none|str|int|list[str]",
    "value_name": "str",
}
c = R.contract(
    M_OPT + ":Option.__init__",
    params=OPT_PARAMS,
    ensures=[
        "not (%s)" % OPT_BAD,
        "self._flags == %s" % NORM_OPT,
        "self._long_name == strip2(long_name)",
        "(self._short_name is None) == (short_name is None)",
        "short_name is None or self._short_name == strip1(short_name)",
        # exactly one value type, one name preference, a value mode
        "(bool(self._flags & 128) + bool(self._flags & 256) + bool(self._flags & 512) + bool(self._flags & 1024)) == 1",
        "(bool(self._flags & 1) + bool(self._flags & 2)) == 1",
        "bool(self._flags & 60)",
        # value-less options take no value and have no default; multi-valued ones require a value and have a list default
        "implies(bool(self._flags & 4), (not self.accepts_value()) and self._default is None)",
        "implies(bool(self._flags & 32), self.is_value_required() and isinstance(self._default, list))",
        "implies(not (self._flags & 4) and not (self._flags & 32), self._default is default)"
        if False else "True",
    ],
    raises={"ValueError": OPT_BAD},
    modifies=["self._long_name", "self._short_name", "self._flags", "self._description", "self._value_name",
              "self._default"],
)
c.defaults = {"short_name": None, "flags": 0, "description": None, "default": None, "value_name": "..."}

# ---------------------------------------------------------------- Argument
R.spec_fn(
    "arg_types_conflict",
    [("f", "flags")],
    "(f & 16 and (f & 32 or f & 64 or f & 128)) or (f & 32 and (f & 64 or f & 128)) or (f & 64 and f & 128)",
    "bool",
)
ARG_BAD = (
    "(not isinstance(name, str)) or (not argname_ok(name)) or "
    "(description is not None and ((not isinstance(description, str)) or len(description) == 0)) or "
    "(bool(flags & 1) and bool(flags & 2)) or arg_types_conflict(flags) or "
    "(bool(flags & 1) and default is not None) or "
    "(bool(flags & 4) and default is not None and not isinstance(default, list))"
)
NORM_ARG = "(flags | (0 if flags & 3 else 2)) | (0 if flags & 240 else 16)"
c = R.contract(
    M_ARG + ":Argument.__init__",
    params={"name": "str|none|int", "flags": "flags", "description": "str|none|int", "default": "none|str|int|list[str]"},
    ensures=[
        "not (%s)" % ARG_BAD,
        "self._flags == %s" % NORM_ARG,
        "self._name == name",
        "(bool(self._flags & 16) + bool(self._flags & 32) + bool(self._flags & 64) + bool(self._flags & 128)) == 1",
        "(bool(self._flags & 1) + bool(self._flags & 2)) == 1",
        # a required argument is not optional and has no (non-empty) default
        "implies(bool(self._flags & 1), (not self.is_optional()) and "
        "(self._default is None or (isinstance(self._default, list) and len(self._default) == 0)))",
        "implies(bool(self._flags & 4), isinstance(self._default, list))",
    ],
    raises={"ValueError": ARG_BAD},
    modifies=["self._name", "self._flags", "self._description", "self._default"],
)
c.defaults = {"flags": 0, "description": None, "default": None}

# ---------------------------------------------------------------- conversions
R.uf("is_int_literal", ["str"], "bool", raw=True,
     native=lambda s: _converts(int, s))
R.uf("is_float_literal", ["str"], "bool", raw=True, native=lambda s: _converts(float, s))
R.uf("int_of_str", ["str"], "int", raw=True, native=int)
R.uf("str_of_int", ["int"], "str", raw=True, native=str)


def _converts(f, s):
    try:
        f(s)
        return True
    except (ValueError, TypeError):
        return False


ANYVAL = "none|bool|int|real|str|list[str]|ref object"
NULLED = "(nullable and (value is None or value == 'null'))"

R.contract(
    M_STR + ":parse_string",
    params={"value": ANYVAL, "nullable": "bool"},
    returns="str?",
    ensures=[
        "(result is None) == %s" % NULLED,
        "implies(isinstance(value, str) and not %s, result == value)" % NULLED,
        "implies(isinstance(value, bool), result == ('true' if value else 'false'))",
    ],
).defaults = {"nullable": True}
R.contract(
    M_STR + ":parse_boolean",
    params={"value": ANYVAL, "nullable": "bool"},
    returns="bool?",
    ensures=[
        "(result is None) == %s" % NULLED,
        "implies(isinstance(value, bool), result == value)",
        # the text form of every boolean maps back to it
        "implies(isinstance(value, str) and value in ('true', '1', 'yes', 'on'), result == True)",
        "implies(isinstance(value, str) and value in ('false', '0', 'no', 'off', ''), result == False)",
    ],
    raises={"ValueError": "not isinstance(value, bool) and not (isinstance(value, str) and value in "
                          "('true', '1', 'yes', 'on', 'false', '0', 'no', 'off', '')) and not %s" % NULLED},
).defaults = {"nullable": True}
R.contract(
    M_STR + ":parse_int",
    params={"value": ANYVAL, "nullable": "bool"},
    returns="int?",
    ensures=[
        "(result is None) == %s" % NULLED,
        "implies(isinstance(value, int) and not isinstance(value, bool), result == value)",
        "implies(isinstance(value, str) and not %s, is_int_literal(value) and result == int_of_str(value))" % NULLED,
    ],
    raises={"ValueError": "(not %s) and ((isinstance(value, str) and not is_int_literal(value)) or value is None or "
                          "isinstance(value, list) or not isinstance(value, (bool, int, float, str)))" % NULLED},
).defaults = {"nullable": True}
R.contract(
    M_STR + ":parse_float",
    params={"value": ANYVAL, "nullable": "bool"},
    returns="real?",
    ensures=[
        "(result is None) == %s" % NULLED,
        "implies(isinstance(value, float), result == value)",
        "implies(isinstance(value, str) and not %s, is_float_literal(value))" % NULLED,
    ],
    raises={"ValueError": "(not %s) and ((isinstance(value, str) and not is_float_literal(value)) or value is None or "
                          "isinstance(value, list) or not isinstance(value, (bool, int, float, str)))" % NULLED},
).defaults = {"nullable": True}

# dispatch by the single declared type (normal form established by the constructors)
ONE_TYPE_OPT = "(bool(self._flags & 128) + bool(self._flags & 256) + bool(self._flags & 512) + bool(self._flags & 1024)) == 1"
ONE_TYPE_ARG = "(bool(self._flags & 16) + bool(self._flags & 32) + bool(self._flags & 64) + bool(self._flags & 128)) == 1"
for qual, one, (S, B, I, F, N) in (
    (M_OPT + ":Option.parse", ONE_TYPE_OPT, (128, 256, 512, 1024, 2048)),
    (M_ARG + ":Argument.parse", ONE_TYPE_ARG, (16, 32, 64, 128, 256)),
):
    R.contract(
        qual,
        params={"value": ANYVAL},
        returns="none|bool|int|real|str",
        requires=[one],
        ensures=[
            "implies(result is None, bool(self._flags & %d) and (value is None or value == 'null'))" % N,
            "implies(bool(self._flags & %d), result is None or isinstance(result, str))" % S,
            "implies(bool(self._flags & %d), result is None or isinstance(result, bool))" % B,
            "implies(bool(self._flags & %d), result is None or (isinstance(result, int) and not isinstance(result, bool)))" % I,
            "implies(bool(self._flags & %d), result is None or isinstance(result, float))" % F,
        ],
        raises={"ValueError": "not (self._flags & %d)" % S},
    )

# ---------------------------------------------------------------- Option.set_default (public: the default can be set again)
# C07 (normal form of an option): a value-less option has no default (setting one is refused), the default of a
# multi-valued option is always a list - an empty one when it is reset - and any other option keeps what it is given.
SET_DEFAULT_Q = M_OPT + ":Option.set_default"
c = R.contract(
    SET_DEFAULT_Q, variant="public",  # (a named case: the constructor keeps executing the method itself)
    params={"default": "none|str|int|list[str]"},
    ensures=[
        "not (self._flags & 4)",
        "implies(bool(self._flags & 32), isinstance(self._default, list))",
        "implies(bool(self._flags & 32) and default is None, len(self._default) == 0)",
        "implies(not (self._flags & 32), (self._default is None) == (default is None))",
    ],
    raises={"ValueError": "bool(self._flags & 4) or (bool(self._flags & 32) and default is not None and not isinstance(default, list))"},
    modifies=["self._default"],
)
c.defaults = {"default": None}
SET_DEFAULT = {"qual": SET_DEFAULT_Q, "tag": "public"}
