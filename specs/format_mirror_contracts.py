"""The finished ArgsFormat mirrors the lookups of the builder (C06): get_option / get_command_option, one level of the
base chain at a time (variant contracts, proved of the real bodies, never used at call sites -- see builder_contracts)."""
from pyvc.contracts import REG as R
from . import builder_contracts as bc
from . import parser_contracts as pcx  # noqa: F401  (assumed view of the base: ArgsFormat.get_option, fmt_opt)

F = bc.F

# ---------------------------------------------------------------- the finished format mirrors the builder's lookups
# ArgsFormat.has_option / has_command_option / get_option / get_command_option are verified, one level of the base chain
# at a time, against the same unfolding that the lookups of the builder are verified against (builder_contracts): the own two tables first,
# then the base format seen through its (uninterpreted, fixed) view.  These are variant contracts: they are proved of the
# real bodies and never used at a call site (callers keep seeing the format through the views), so the views are not
# assumed to satisfy anything new -- what is proved is that the code computes the view of a format from its own tables
# and the view of its base exactly as the builder does (C06: "the finished format answers every query as the builder did").
R.shape("ArgsFormat", _base_format="ref ArgsFormat?",
        _options="dict[str,ref Option]", _options_by_short_name="dict[str,ref Option]",
        _command_options="dict[str,ref CommandOption]", _command_options_by_short_name="dict[str,ref CommandOption]")
R.uf("fmt_copt", ["ref ArgsFormat", "str"], "ref CommandOption")
# the assumed view of get_option (parser_contracts) is the lookup including the bases, too
R.contracts[F + "get_option"].requires = list(R.contracts[F + "get_option"].requires) + ["[C06] include_base"]
MIRROR = []
for _meth, _t1, _t2, _uf in (("has_option", "_options", "_options_by_short_name", "base_has_option"),
                             ("has_command_option", "_command_options", "_command_options_by_short_name", "base_has_command_option")):
    _c = R.contract(F + _meth, variant="mirror", params={"name": "str", "include_base": "bool"}, returns="bool",
                    ensures=["result == ((name in self.%s) or (name in self.%s) or %s)" % (_t1, _t2, bc.BASE % _uf)], modifies=[])
    _c.defaults = {"include_base": True}
    MIRROR.append({"qual": F + _meth, "tag": "mirror"})

R.contract(
    F + "get_command_option", params={"name": "str", "include_base": "bool"}, returns="ref CommandOption",
    requires=["[C06] include_base"],
    ensures=["base_has_command_option(self, name)", "result is fmt_copt(self, name)"],
    raises={"NoSuchOptionException": "not base_has_command_option(self, name)"},
    modifies=[], assumed=True, note="lookup in the (finished, immutable) base format, seen through its views",
).defaults = {"include_base": True}

for _meth, _t1, _t2, _has, _get in (
        ("get_option", "_options", "_options_by_short_name", "base_has_option", "fmt_opt"),
        ("get_command_option", "_command_options", "_command_options_by_short_name", "base_has_command_option", "fmt_copt")):
    _known = "((name in self.%s) or (name in self.%s) or %s)" % (_t1, _t2, bc.BASE % _has)
    _c = R.contract(
        F + _meth, variant="mirror", params={"name": "str", "include_base": "bool"},
        returns="ref " + ("Option" if _meth == "get_option" else "CommandOption"),
        # well-formed tables: long names (and long aliases) have two characters or more, short ones exactly one (enforced
        # by AbstractOption / CommandOption when the element is built, C07) -- so the two tables share no key and an edit
        # that consults them in the other order is not reported
        requires=["all(len(k) >= 2 for k in self.%s)" % _t1, "all(len(k) == 1 for k in self.%s)" % _t2],
        ensures=[
            # a normal return means the name is known to the format or (if asked for) its bases ...
            _known,
            # ... and the element is the one of the long-name table, else of the short-name table, else of the base
            "result is (self.%s[name] if name in self.%s else (self.%s[name] if name in self.%s else %s(self._base_format, name)))"
            % (_t1, _t1, _t2, _t2, _get),
        ],
        # NoSuchOptionException only for a name that none of them knows (and for such a name nothing is returned: first clause)
        raises={"NoSuchOptionException": "not " + _known},
        modifies=[],
    )
    _c.defaults = {"include_base": True}
    MIRROR.append({"qual": F + _meth, "tag": "mirror"})
