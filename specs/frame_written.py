"""Frame obligations shared by C04 / C05 / C17: the application, its commands and their configurations are written only while
they are built (AST of the working tree)."""


def written_only_while_built(prop, classes=None):
    from pyvc import frontend, structural as st
    P = frontend.Program()
    out = []
    # the application, its commands and their configurations are written while they are BUILT, never while a command line
    # is processed: run(), resolve_command(), handle(), parse() and every getter leave the receiver as it was (frame of the
    # history clause: whatever a run computes lives in objects created for that run)
    builders = ("__init__", "configure")
    prefixes = ("set_", "add_", "enable_", "disable_", "remove_")
    for mod, cls, extra in (("clikit.console_application", "ConsoleApplication", ()),
                            ("clikit.api.command.command", "Command", ()),
                            ("clikit.api.config.config", "Config", ())):
        try:
            ci = P.module(mod).classes[cls]
        except Exception as e:  # noqa
            out.append({"name": "%s.%s.frame.written_only_while_built" % (prop, cls), "kind": "frame", "text": "", "status": "undecided",
                        "note": "class not found: %r" % (e,)})
            continue
        bad = []
        for m, fn in sorted(ci.methods.items()):
            if m in builders or m.startswith(prefixes) or m in extra:
                continue
            bad += ["%s: %s" % (m, w) for w in st.self_writes(fn)]
        out.append({
            "name": "%s.%s.frame.written_only_while_built" % (prop, cls), "kind": "frame",
            "text": "no method of %s other than the constructor and its set_ / add_ / enable_ / disable_ / remove_ methods "
                    "stores into the receiver or into an object reached from it" % cls,
            "status": "proved" if not bad else "failed", "note": "; ".join(bad[:6]),
        })
    return out
