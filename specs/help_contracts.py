"""Contracts on the help renderers (C13): no-failure preconditions, hiding, element accounting."""
from pyvc.contracts import REG as R
from . import format_contracts as fc  # noqa: F401  (Option / Argument shapes)

M_AH = "clikit.ui.help.abstract_help"
M_APPH = "clikit.ui.help.application_help"
M_LP = "clikit.ui.components.labeled_paragraph"
M_BL = "clikit.ui.layout.block_layout"

R.shape("Component", external=True)
R.shape("LabeledParagraph", base="Component", _label="str", _text="str", _padding="int", _aligned="bool", _alignment="none|ref object")
# ghost: number of elements added, label and text of the last labeled paragraph added
R.shape("BlockLayout", external=True, g_added="int", g_last_label="str", g_last_text="str")
R.shape("AbstractHelp")
R.shape("ApplicationHelp", base="AbstractHelp")
R.shape("CommandConfig", _hidden="bool", _description="str?")
R.shape("Command", _config="ref CommandConfig", _name="str")

R.contract(
    M_LP + ":LabeledParagraph.__init__",
    params={"label": "str", "text": "str?", "padding": "int", "aligned": "bool"},
    requires=["text is not None"],
    ensures=["self._label == label", "self._text == text"],
    modifies=["self._label", "self._text", "self._padding", "self._aligned", "self._alignment"],
    note="the text of a labeled paragraph must be a string: it is wrapped by textwrap when rendered",
).defaults = {"padding": 2, "aligned": True}
R.contract(
    M_BL + ":BlockLayout.add",
    params={"element": "ref Component"},
    returns="ref BlockLayout",
    ensures=["self.g_added == old(self.g_added) + 1", "result is self"],
    modifies=["self.g_added", "self.g_last_label", "self.g_last_text"],
    assumed=True,
    note="appends the element (ghost counter)",
)
R.uf("json_dumps", ["int"], "str")
R.contract(M_AH + ":AbstractHelp._format_value", params={"value": "none|bool|int|real|str|list[str]"}, returns="str",
           assumed=True, note="json.dumps of a default value: some string, no exception")

ADDED1 = "layout.g_added == old(layout.g_added) + 1"
R.contract(
    M_AH + ":AbstractHelp._render_argument",
    params={"layout": "ref BlockLayout", "argument": "ref Argument"},
    ensures=[ADDED1],   # every argument handed in yields exactly one line, whatever its description / default
    modifies=["layout.g_added", "layout.g_last_label", "layout.g_last_text"],
)
R.contract(
    M_AH + ":AbstractHelp._render_option",
    params={"layout": "ref BlockLayout", "option": "ref Option"},
    requires=["bool(option._flags & 1) or option._short_name is not None"],  # normal form (C07): short preferred => short name
    ensures=[ADDED1],
    modifies=["layout.g_added", "layout.g_last_label", "layout.g_last_text"],
)
R.contract(
    M_APPH + ":ApplicationHelp._render_command",
    params={"layout": "ref BlockLayout", "command": "ref Command"},
    ensures=[
        # a hidden command adds nothing, any other command exactly one line
        "layout.g_added == old(layout.g_added) + (0 if command._config._hidden else 1)",
    ],
    modifies=["layout.g_added", "layout.g_last_label", "layout.g_last_text"],
)

# ---------------------------------------------------------------- CommandHelp: a hidden sub-command contributes nothing
M_CH = "clikit.ui.help.command_help"
M_CMDM = "clikit.api.command.command"
M_CFG = "clikit.api.config.config"
M_CCFG = "clikit.api.config.command_config"
M_FMT = "clikit.api.args.format.args_format"
R.shape("CommandHelp", base="AbstractHelp")
R.shape("BlockScope", external=True)
R.shape("Paragraph", base="Component", external=True)
R.shape("EmptyLine", base="Component", external=True)
R.shape("CommandConfig", _help="str?")
R.shape("Command", _args_format="ref ArgsFormat")
R.contract("clikit.ui.components.paragraph:Paragraph.__init__", params={"text": "str"}, modifies=[], assumed=True)
R.contract("clikit.ui.components.empty_line:EmptyLine.__init__", params={}, modifies=[], assumed=True)
R.contract(M_BL + ":BlockLayout.block", params={}, returns="ref BlockScope", ensures=["fresh(result)"], modifies=[],
           assumed=True, note="the indentation scope of a block (a context manager that swallows nothing)")
R.contract(M_BL + ":BlockScope.__enter__", params={}, returns="none", modifies=[], assumed=True)
R.contract(M_BL + ":BlockScope.__exit__", params={"a": "any", "b": "any", "c": "any"}, returns="none", modifies=[], assumed=True)
R.contract(M_CMDM + ":Command.config", params={}, returns="ref CommandConfig", ensures=["result is self._config"],
           modifies=[]).is_property = True
R.contract(M_CMDM + ":Command.name", params={}, returns="str", ensures=["result == self._name"], modifies=[]).is_property = True
R.contract(M_CMDM + ":Command.args_format", params={}, returns="ref ArgsFormat", ensures=["result is self._args_format"],
           modifies=[]).is_property = True
R.contract(M_CCFG + ":CommandConfig.is_hidden", params={}, returns="bool", ensures=["result == self._hidden"], modifies=[])
R.contract(M_CFG + ":Config.description", params={}, returns="str?", ensures=["(result is None) == (self._description is None)",
           "result is None or result == self._description"], modifies=[], assumed=True).is_property = True
R.contract(M_CFG + ":Config.help", params={}, returns="str?", ensures=["(result is None) == (self._help is None)",
           "result is None or result == self._help"], modifies=[], assumed=True).is_property = True
R.uf("fmt_count_args", ["ref ArgsFormat", "bool"], "int")
R.uf("fmt_count_opts", ["ref ArgsFormat", "bool"], "int")
R.contract(M_FMT + ":ArgsFormat.get_arguments", params={"include_base": "bool"}, returns="odict[str,ref Argument]",
           ensures=["fresh(result)", "len(seq(result.values())) == fmt_count_args(self, include_base)", "(not result) == (fmt_count_args(self, include_base) == 0)"], modifies=[], assumed=True,
           note="a new dict of the arguments; their number is a fixed view of the (immutable) format"
           ).defaults = {"include_base": True}
R.contract(M_FMT + ":ArgsFormat.get_options", params={"include_base": "bool"}, returns="odict[str,ref Option]",
           ensures=["fresh(result)", "len(seq(result.values())) == fmt_count_opts(self, include_base)", "(not result) == (fmt_count_opts(self, include_base) == 0)",
                    # the options of a format are in the normal form that Option.__init__ establishes (verified under C07)
                    "all(bool(result[k]._flags & 1) or result[k]._short_name is not None for k in result)"],
           modifies=[], assumed=True,
           note="a new dict of the format's options, each in the normal form of C07 (short preferred => short name)"
           ).defaults = {"include_base": True}
LAYOUT_MODS = ["layout.g_added", "layout.g_last_label", "layout.g_last_text"]
for _m, _p in (("_render_sub_command_description", {"layout": "ref BlockLayout", "description": "str"}),
               ("_render_sub_command_help", {"layout": "ref BlockLayout", "help": "str"})):
    R.contract(M_CH + ":CommandHelp." + _m, params=_p, ensures=["layout.g_added == old(layout.g_added) + 2"], modifies=LAYOUT_MODS)
# the two element loops: one line per element handed in (whatever it is: _render_argument / _render_option are verified
# to add exactly one line each) and one separator line behind them -- no element is dropped, none listed twice
for _m, _p, _k in (("_render_sub_command_arguments", "arguments", "Argument"), ("_render_sub_command_options", "options", "Option")):
    R.contract(M_CH + ":CommandHelp." + _m, params={"layout": "ref BlockLayout", _p: "seq[ref %s]" % _k},
               requires=(["all(bool(o._flags & 1) or o._short_name is not None for o in options)"] if _k == "Option" else []),
               ensures=["layout.g_added == old(layout.g_added) + len(%s) + 1" % _p], modifies=LAYOUT_MODS)
    R.loop(M_CH + ":CommandHelp." + _m, 0, invariants=["layout.g_added == old(layout.g_added) + _i"],
           modifies=LAYOUT_MODS, fingerprint=" in %s" % _p)  # the invariant names no loop variable: a renamed one still verifies
# the three element sections of every help page (ARGUMENTS / OPTIONS / GLOBAL OPTIONS): a heading, exactly one line per
# element handed in -- none dropped, none repeated, for any number of elements -- and a separator
SECTION_LOOPS = []
for _m, _p, _k in (("_render_arguments", "arguments", "Argument"), ("_render_options", "options", "Option"),
                   ("_render_global_options", "options", "Option")):
    R.contract(M_AH + ":AbstractHelp." + _m, params={"layout": "ref BlockLayout", _p: "seq[ref %s]" % _k},
               requires=(["all(bool(o._flags & 1) or o._short_name is not None for o in options)"] if _k == "Option" else []),
               ensures=["layout.g_added == old(layout.g_added) + len(%s) + 2" % _p], modifies=LAYOUT_MODS)
    R.loop(M_AH + ":AbstractHelp." + _m, 0, invariants=["layout.g_added == old(layout.g_added) + 1 + _i"],
           modifies=LAYOUT_MODS, fingerprint=" in %s" % _p)
    SECTION_LOOPS.append(M_AH + ":AbstractHelp." + _m)
RSC = M_CH + ":CommandHelp._render_sub_command"
SC_D = "(command._config._description is not None and len(command._config._description) > 0)"
SC_H = "(command._config._help is not None and len(command._config._help) > 0)"
SC_NA = "fmt_count_args(command._args_format, False)"
SC_NO = "fmt_count_opts(command._args_format, False)"
R.contract(
    RSC, params={"layout": "ref BlockLayout", "command": "ref Command"},
    ensures=[
        # a hidden sub-command adds nothing to the page; any other at least its name line and one more element
        "implies(command._config._hidden, layout.g_added == old(layout.g_added))",
        "implies(not command._config._hidden, layout.g_added >= old(layout.g_added) + 2)",
        # exactly: the name line, two elements for a description, two for a help text, one per own argument and one per
        # own option (each group with its separator) -- and a single empty line only if there is none of the four
        "implies(not command._config._hidden, layout.g_added == old(layout.g_added) + 1 + (2 if %s else 0) + (2 if %s else 0)"
        " + (%s + 1 if %s > 0 else 0) + (%s + 1 if %s > 0 else 0)"
        " + (1 if (not %s and not %s and %s == 0 and %s == 0) else 0))" % (SC_D, SC_H, SC_NA, SC_NA, SC_NO, SC_NO, SC_D, SC_H, SC_NA, SC_NO),
    ],
    modifies=LAYOUT_MODS,
)
C13_EXTRA = SECTION_LOOPS + [M_CMDM + ":Command.name", M_CCFG + ":CommandConfig.is_hidden", RSC, M_CH + ":CommandHelp._render_sub_command_arguments", M_CH + ":CommandHelp._render_sub_command_options", M_CH + ":CommandHelp._render_sub_command_description", M_CH + ":CommandHelp._render_sub_command_help"]
