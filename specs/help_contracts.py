"""Contracts on the help renderers (C13): no-failure preconditions, hiding, element accounting."""
from pyvc.contracts import REG as R
from . import format_contracts as fc  # noqa: F401  (Option / Argument shapes)

M_AH = "clikit.ui.help.abstract_help"
M_APPH = "clikit.ui.help.application_help"
M_LP = "clikit.ui.components.labeled_paragraph"
M_BL = "clikit.ui.layout.block_layout"

R.shape("Component", external=True)
R.shape("LabeledParagraph", base="Component", _label="str", _text="str", _padding="int", _aligned="bool", _alignment="none|ref object")
# ghost: number of elements added, label and text of the last labeled paragraph added
R.shape("BlockLayout", external=True, g_added="int", g_last_label="str", g_last_text="str")
R.shape("AbstractHelp")
R.shape("ApplicationHelp", base="AbstractHelp")
R.shape("CommandConfig", _hidden="bool", _description="str?")
R.shape("Command", _config="ref CommandConfig", _name="str")

R.contract(
    M_LP + ":LabeledParagraph.__init__",
    params={"label": "str", "text": "str?", "padding": "int", "aligned": "bool"},
    requires=["text is not None"],
    ensures=["self._label == label", "self._text == text"],
    modifies=["self._label", "self._text", "self._padding", "self._aligned", "self._alignment"],
    note="the text of a labeled paragraph must be a string: it is wrapped by textwrap when rendered",
).defaults = {"padding": 2, "aligned": True}
R.contract(
    M_BL + ":BlockLayout.add",
    params={"element": "ref Component"},
    returns="ref BlockLayout",
    ensures=["self.g_added == old(self.g_added) + 1", "result is self"],
    modifies=["self.g_added", "self.g_last_label", "self.g_last_text"],
    assumed=True,
    note="appends the element (ghost counter)",
)
R.uf("json_dumps", ["int"], "str")
R.contract(M_AH + ":AbstractHelp._format_value", params={"value": "none|bool|int|real|str|list[str]"}, returns="str",
           assumed=True, note="json.dumps of a default value: some string, no exception")

ADDED1 = "layout.g_added == old(layout.g_added) + 1"
R.contract(
    M_AH + ":AbstractHelp._render_argument",
    params={"layout": "ref BlockLayout", "argument": "ref Argument"},
    ensures=[ADDED1],   # every argument handed in yields exactly one line, whatever its description / default
    modifies=["layout.g_added", "layout.g_last_label", "layout.g_last_text"],
)
R.contract(
    M_AH + ":AbstractHelp._render_option",
    params={"layout": "ref BlockLayout", "option": "ref Option"},
    requires=["bool(option._flags & 1) or option._short_name is not None"],  # normal form (C07): short preferred => short name
    ensures=[ADDED1],
    modifies=["layout.g_added", "layout.g_last_label", "layout.g_last_text"],
)
R.contract(
    M_APPH + ":ApplicationHelp._render_command",
    params={"layout": "ref BlockLayout", "command": "ref Command"},
    ensures=[
        # a hidden command adds nothing, any other command exactly one line
        "layout.g_added == old(layout.g_added) + (0 if command._config._hidden else 1)",
    ],
    modifies=["layout.g_added", "layout.g_last_label", "layout.g_last_text"],
)
