"""Contracts on the output classes (shared by C09, C10, C11, C15, C16, C19).

Ghost state: every OutputStream carries `g_out`, the sequence of payloads passed
to `write` so far (natively maintained by the replay / bounded wrappers).
"""
from pyvc.contracts import REG as R

M_OUT = "clikit.api.io.output"
M_SEC = "clikit.api.io.section_output"
M_IO = "clikit.api.io.io"
M_STREAM = "clikit.api.io.output_stream"
M_FMT = "clikit.api.formatter.formatter"

# ---------------------------------------------------------------- shapes
R.shape("OutputStream", external=True, ghost=("g_count", "g_last", "g_text"), g_count="int", g_last="str", g_text="str",
        g_ansi="bool", g_utf8="bool")
# `final`: a formatter reference is modelled as an abstract Formatter obeying the assumed contract below (an Output
# used as another output's formatter is covered by that contract, not by aliasing)
R.shape("Formatter", external=True, final=True, g_force="bool", g_disable="bool")
R.shape("Terminal", external=True, g_width="int")
R.shape(
    "Output",
    _stream="ref OutputStream",
    _formatter="ref Formatter",
    _quiet="bool",
    _format_output="bool",
    _verbosity="int",
    _section_outputs="list[ref SectionOutput]",
    _supports_utf8="bool",
    _indent="int",
)
R.shape(
    "SectionOutput",
    base="Output",
    _content="list[str]",
    _lines="int",
    _sections="list[ref SectionOutput]",
    _terminal="ref Terminal",
    g_erased="str",
)
R.shape("InputStream", external=True)
R.shape("Input", _stream="ref InputStream", _interactive="bool")
R.shape("IO", _input="ref Input", _output="ref Output", _error_output="ref Output", _terminal_dimensions="any")
R.shape("Indent", _outputs="list[ref Output]", _original_indents="list[int]")

# ---------------------------------------------------------------- spec functions
R.spec_fn(
    "min_level",
    [("flags", "int")],
    "1 if flags & 1 else (2 if flags & 2 else (4 if flags & 4 else 0))",
    "int",
)
# the gate of the property: not quiet and verbosity at least the lowest level requested by the flags
R.spec_fn(
    "gate",
    [("quiet", "bool"), ("verbosity", "int"), ("flags", "int")],
    "(not quiet) and verbosity >= min_level(flags)",
    "bool",
)
R.uf("fmt_format", ["ref Formatter", "str"], "str")
R.uf("fmt_remove", ["ref Formatter", "str"], "str")
R.uf("indent_text", ["str", "int"], "str")

VALID = "self._verbosity in (0, 1, 2, 4)"  # type invariant established by set_verbosity
GATE = "gate(self._quiet, self._verbosity, 0 if flags is None else flags)"
ANSI_LATE = "(self._format_output or self._formatter.g_force)"
LAST = "self._stream.g_last"
STREAM_GHOST = ["self._stream.g_count", "self._stream.g_last", "self._stream.g_text"]


def ghost_of(stream):
    return [stream + ".g_count", stream + ".g_last", stream + ".g_text"]


def wrote_iff(gate, stream="self._stream"):
    """exactly one payload reaches the stream iff the gate holds, else the stream is untouched.
    Ghost: g_count = number of write() calls, g_last = last payload, g_text = everything written."""
    return (
        "({s}.g_count == old({s}.g_count) + 1 and {s}.g_text == old({s}.g_text) + {s}.g_last) if {g} else "
        "({s}.g_count == old({s}.g_count) and {s}.g_text == old({s}.g_text) and {s}.g_last == old({s}.g_last))"
    ).format(s=stream, g=gate)


# ---------------------------------------------------------------- assumed (external) contracts
R.contract(
    M_STREAM + ":OutputStream.write",
    params={"string": "str"},
    ensures=["self.g_count == old(self.g_count) + 1", "self.g_last == string", "self.g_text == old(self.g_text) + string"],
    modifies=["self.g_count", "self.g_last", "self.g_text"],
    assumed=True,
    note="abstract stream: write appends the payload to the ghost log, raises nothing",
)
R.contract(M_STREAM + ":OutputStream.flush", params={}, assumed=True)
R.contract(M_STREAM + ":OutputStream.supports_ansi", params={}, returns="bool", ensures=["result == self.g_ansi"], assumed=True)
R.contract(M_STREAM + ":OutputStream.supports_utf8", params={}, returns="bool", ensures=["result == self.g_utf8"], assumed=True)
R.contract(
    M_FMT + ":Formatter.format",
    params={"string": "str", "style": "any"},
    returns="str",
    ensures=["result == fmt_format(self, string)"],
    assumed=True,
    note="formatting is a function of formatter and text (the per-call style is ignored in this abstraction); "
    "raises nothing for balanced markup",
).defaults = {"style": None}
R.contract(
    M_FMT + ":Formatter.remove_format",
    params={"string": "str"},
    returns="str",
    ensures=["result == fmt_remove(self, string)"],
    assumed=True,
)
R.contract(M_FMT + ":Formatter.force_ansi", params={}, returns="bool", ensures=["result == self.g_force"], assumed=True)
R.contract(M_FMT + ":Formatter.disable_ansi", params={}, returns="bool", ensures=["result == self.g_disable"], assumed=True)

# ---------------------------------------------------------------- Output
R.contract(
    M_OUT + ":Output._may_write",
    params={"flags": "int?"},
    returns="bool",
    requires=[VALID],
    ensures=["result == " + GATE],
)

R.abstractions = getattr(R, "abstractions", {})
R.abstractions[M_OUT + ":Output.write"] = [
    (
        "'\\n'.join((' ' * self._indent + s if s else s for s in string.split('\\n')))",
        "str",
        "indentation of every non-empty line: a function of the width in force and the text; its meaning (blanks before "
        "every non-empty line) is checked by the bounded tier of C11",
        ("indented", ["self._indent", "string"]),
    )
]
R.uf("indented", ["int", "str"], "str",
     native=lambda n, s: "\n".join((" " * n + l) if l else l for l in s.split("\n")))

WRITE_PARAMS = {"string": "str", "flags": "int?", "new_line": "bool", "with_indent": "bool"}

c = R.contract(
    M_OUT + ":Output.write",
    params=WRITE_PARAMS,
    requires=[VALID],
    ensures=[
        wrote_iff(GATE),
        # C11: a line write ends in exactly the newline that was asked for
        "[C11,C15] implies(%s and new_line, %s.endswith('\\n'))" % (GATE, LAST),
        # C11: undecorated output goes through remove_format, decorated through format (when not indented)
        "[C11,C15] implies(%s and not (self._indent > 0 and with_indent) and self._format_output, "
        "%s == fmt_format(self._formatter, string) + ('\\n' if new_line else ''))" % (GATE, LAST),
        "[C11,C15] implies(%s and not (self._indent > 0 and with_indent) and not self._format_output, "
        "%s == fmt_remove(self._formatter, string) + ('\\n' if new_line else ''))" % (GATE, LAST),
        # C11: whenever an indentation is in force (and asked for), what is formatted is the indented text
        "[C11,C15] implies(%s and self._indent > 0 and with_indent and self._format_output, "
        "%s == fmt_format(self._formatter, indented(self._indent, string)) + ('\\n' if new_line else ''))" % (GATE, LAST),
        "[C11,C15] implies(%s and self._indent > 0 and with_indent and not self._format_output, "
        "%s == fmt_remove(self._formatter, indented(self._indent, string)) + ('\\n' if new_line else ''))" % (GATE, LAST),
    ],
    modifies=STREAM_GHOST,
)
c.defaults = {"flags": None, "new_line": False, "with_indent": True}

c = R.contract(
    M_OUT + ":Output.write_line",
    params={"string": "str", "flags": "int?"},
    requires=[VALID],
    ensures=[
        wrote_iff(GATE),
        "[C11] implies(%s, %s.endswith('\\n'))" % (GATE, LAST),
    ],
    modifies=STREAM_GHOST,
)
c.defaults = {"flags": None}

c = R.contract(
    M_OUT + ":Output.write_raw",
    params={"string": "str", "flags": "int?"},
    requires=[VALID],
    ensures=[wrote_iff(GATE), "[C11] implies(%s, %s == string)" % (GATE, LAST)],
    modifies=STREAM_GHOST,
)
c.defaults = {"flags": None}

c = R.contract(
    M_OUT + ":Output.write_line_raw",
    params={"string": "str", "flags": "int?"},
    requires=[VALID],
    ensures=[
        wrote_iff(GATE),
        "[C11] implies(%s, %s.endswith('\\n'))" % (GATE, LAST),
        # exactly one trailing newline: the text before it does not end in one
        "[C11] implies(%s, not %s[:-1].endswith('\\n'))" % (GATE, LAST),
    ],
    modifies=STREAM_GHOST,
)
c.defaults = {"flags": None}

R.contract(M_OUT + ":Output.is_quiet", params={}, returns="bool", ensures=["result == self._quiet"])
R.contract(M_OUT + ":Output.supports_ansi", params={}, returns="bool", ensures=["result == self._format_output"])

# ---------------------------------------------------------------- IO (delegation with the caller's flags)
IO_GATE_OUT = "gate(self._output._quiet, self._output._verbosity, 0 if flags is None else flags)"
IO_GATE_ERR = "gate(self._error_output._quiet, self._error_output._verbosity, 0 if flags is None else flags)"

for meth, out, g, line in (
    ("write", "self._output", IO_GATE_OUT, False),
    ("write_line", "self._output", IO_GATE_OUT, True),
    ("write_raw", "self._output", IO_GATE_OUT, False),
    ("write_line_raw", "self._output", IO_GATE_OUT, True),
    ("error", "self._error_output", IO_GATE_ERR, False),
    ("error_line", "self._error_output", IO_GATE_ERR, True),
    ("error_raw", "self._error_output", IO_GATE_ERR, False),
    ("error_line_raw", "self._error_output", IO_GATE_ERR, True),
):
    ens = [wrote_iff(g, out + "._stream")]
    if line:
        ens.append("[C11] implies(%s, %s._stream.g_last.endswith('\\n'))" % (g, out))
    c = R.contract(
        M_IO + ":IO." + meth,
        params={"string": "str", "flags": "int?"},
        requires=["%s._verbosity in (0, 1, 2, 4)" % out],
        ensures=ens,
        modifies=ghost_of(out + "._stream"),
    )
    c.defaults = {"flags": None}

# ---------------------------------------------------------------- SectionOutput
SEC = M_SEC + ":SectionOutput."
UNCHANGED = ("self._stream.g_count == old(self._stream.g_count) and self._stream.g_text == old(self._stream.g_text) "
             "and self._stream.g_last == old(self._stream.g_last)")
ANSI = "(self._format_output or self._formatter.g_force)"

R.local_kinds = getattr(R, "local_kinds", {})
R.local_kinds[SEC + "_pop_stream_content_until_current_section"] = {"erased_content": "list[str]"}

R.contract(SEC + "lines", params={}, returns="int", ensures=["result == self._lines"]).is_property = True
R.uf("join_all", ["seq[str]"], "str")
R.contract(
    SEC + "content",
    params={},
    returns="str",
    ensures=["result == join_all(self._content)"],
    assumed=True,
    note="''.join(list) as an uninterpreted function of the list contents",
).is_property = True

R.contract(
    SEC + "add_content",
    params={"content": "str"},
    modifies=["self._lines", "items(self._content)"],
    assumed=True,
    note="row accounting is specified and checked under C15; here only its frame is used",
)

c = R.contract(
    SEC + "_pop_stream_content_until_current_section",
    params={"lines_to_clear_count": "int"},
    returns="str",
    requires=[VALID],
    ensures=[
        # control-only path: may have nothing to erase, but never writes on a quiet output
        "implies(self._quiet, %s)" % UNCHANGED,
        "self._stream.g_count >= old(self._stream.g_count)",
        # ghost: what was erased from the screen below this section (for the callers that print it again)
        "[def] self.g_erased == result",
    ],
    modifies=STREAM_GHOST + ["self.g_erased"],
)
c.defaults = {"lines_to_clear_count": 0}
R.loop(
    SEC + "_pop_stream_content_until_current_section",
    0,
    invariants=["True"],
    modifies=["items(erased_content)"],
    fingerprint="section in self._sections",
)

c = R.contract(
    SEC + "write",
    params=WRITE_PARAMS,
    requires=[VALID],
    ensures=[
        # text-carrying method: something reaches the stream iff the gate holds for the caller's flags
        "implies(not %s, %s)" % (GATE, UNCHANGED),
        # ... and a refused text is not kept for later either: the section records nothing (another section's write
        # re-prints what the sections below it have recorded)
        "implies(not %s, self._lines == old(self._lines) and seq(self._content) == old(seq(self._content)))" % GATE,
        "implies(%s, self._stream.g_count > old(self._stream.g_count))" % GATE,
        # C11/C15: without ANSI the section degrades to a plain write of the same kind
        "[C11,C15] implies(%s and not %s and new_line, self._stream.g_last.endswith('\\n'))" % (GATE, ANSI),
        # C15: ... to ONE plain appended write: no cursor control (a control sequence is a write of its own), no
        # accounting, and the undecorated text of the message itself
        "[C15] implies(%s and not %s, self._stream.g_count == old(self._stream.g_count) + 1 and "
        "self._lines == old(self._lines) and seq(self._content) == old(seq(self._content)))" % (GATE, ANSI),
        "[C11,C15] implies(%s and not %s and not (self._indent > 0 and with_indent), "
        "self._stream.g_last == fmt_remove(self._formatter, string) + ('\\n' if new_line else ''))" % (GATE, ANSI),
        # C15: with ANSI support the text is recorded in the section (it is what later redraws re-print)
        "[C15] implies(%s and %s, len(self._content) >= old(len(self._content)) + 2)" % (GATE, ANSI),
        # C11/C15: ... and what was erased below is printed again AS IT WAS: formatted, but not indented a second time by the
        # indentation of the section that is writing (the recorded lines carry the indentation of their own section)
        "[C11,C15] implies(%s and %s, self._stream.g_last == (fmt_format(self._formatter, self.g_erased) if self._format_output "
        "else fmt_remove(self._formatter, self.g_erased)))" % (GATE, ANSI),
    ],
    modifies=STREAM_GHOST + ["self._lines", "items(self._content)", "self.g_erased"],
)
c.defaults = {"flags": None, "new_line": False, "with_indent": True}

c = R.contract(
    SEC + "clear",
    params={"lines": "int?"},
    requires=[VALID],
    ensures=["implies(self._quiet, %s)" % UNCHANGED, "self._stream.g_count >= old(self._stream.g_count)",
             "self._content is old(self._content) or fresh(self._content)",
             # C15: without ANSI support a clear emits nothing (no control codes) and forgets nothing
             "[C11,C15] implies(not %s, %s and self._lines == old(self._lines) and self._content is old(self._content) "
             "and seq(self._content) == old(seq(self._content)))" % (ANSI, UNCHANGED)],
    modifies=STREAM_GHOST + ["self._lines", "self._content", "items(self._content)", "self.g_erased"],
)
c.defaults = {"lines": None}

R.contract(
    SEC + "overwrite",
    params={"message": "str"},
    requires=[VALID],
    ensures=[
        "implies(self._quiet, %s)" % UNCHANGED,
        "implies(not self._quiet, self._stream.g_count > old(self._stream.g_count))",
        # C11: overwrite is a line-writing method - on an undecorated section the new text goes out as one line
        "[C11,C15] implies(not self._quiet and not %s and self._indent == 0, "
        "self._stream.g_last == fmt_remove(self._formatter, message) + '\\n')" % ANSI_LATE,
    ],
    modifies=STREAM_GHOST + ["self._lines", "self._content", "items(self._content)", "self.g_erased"],
)


# ---------------------------------------------------------------- native stubs for replay
class StubStream(object):
    g_count = 0
    g_last = ""
    g_text = ""
    g_ansi = False
    g_utf8 = True

    def write(self, string):
        self.g_count += 1
        self.g_last = string
        self.g_text += string

    def flush(self):
        pass

    def supports_ansi(self):
        return self.g_ansi

    def supports_utf8(self):
        return self.g_utf8


class StubFormatter(object):
    g_force = False
    g_disable = False

    def format(self, string, style=None):
        return "\x1b[1m" + string + "\x1b[0m"

    def remove_format(self, string):
        import re
        return re.sub(r"</?[a-z0-9=;,]*>", "", string)

    def force_ansi(self):
        return self.g_force

    def disable_ansi(self):
        return self.g_disable


class StubTerminal(object):
    g_width = 80

    def __stub_init__(self):
        if not isinstance(self.g_width, int) or self.g_width < 1:
            self.g_width = 80  # the assumed contract of Terminal.width: at least 1

    @property
    def width(self):
        return self.g_width


R.native_stubs = getattr(R, "native_stubs", {})
R.native_stubs.update({"OutputStream": StubStream, "Formatter": StubFormatter, "Terminal": StubTerminal})
R.ufs["fmt_format"].native = lambda f, s: f.format(s)
R.ufs["fmt_remove"].native = lambda f, s: f.remove_format(s)
R.ufs["join_all"].native = lambda xs: "".join(xs)

# a Terminal always reports a usable width (its own test-suite invariant)
R.contract("clikit.utils.terminal:Terminal.width", params={}, returns="int",
           ensures=["result == self.g_width", "result >= 1"], assumed=True,
           note="Terminal.width is at least 1").is_property = True

# inherited line method on a section-output receiver: dispatches to SectionOutput.write
c = R.contract(
    M_OUT + ":Output.write_line",
    for_cls="SectionOutput",
    params={"string": "str", "flags": "int?"},
    requires=[VALID],
    ensures=[
        "implies(not %s, %s)" % (GATE, UNCHANGED),
        # ... and a refused text is not kept for later either: the section records nothing (another section's write
        # re-prints what the sections below it have recorded)
        "implies(not %s, self._lines == old(self._lines) and seq(self._content) == old(seq(self._content)))" % GATE,
        "implies(%s, self._stream.g_count > old(self._stream.g_count))" % GATE,
        "[C11,C15] implies(%s and not %s, self._stream.g_last.endswith('\\n'))" % (GATE, ANSI),
        "[C11,C15] implies(%s and not %s and self._indent == 0, "
        "self._stream.g_last == fmt_remove(self._formatter, string) + '\\n')" % (GATE, ANSI),
    ],
    modifies=STREAM_GHOST + ["self._lines", "items(self._content)", "self.g_erased"],
)
c.defaults = {"flags": None}

# ---------------------------------------------------------------- C15: row accounting of section outputs
# rows one content line occupies on a terminal of width w (the same expression as the code, over the reals)
R.spec_fn(
    "rows_of", [("f", "ref Formatter"), ("line", "str"), ("w", "int")],
    "1 if w <= 0 else (math.ceil(len(fmt_remove(f, line).replace('\\t', '        ')) / w) "
    "if math.ceil(len(fmt_remove(f, line).replace('\\t', '        ')) / w) != 0 else 1)",
    "int",
)
# rows of a content list [line, "\n", line, "\n", ...]
R.spec_fn(
    "rows_content", [("c", "seq[str]"), ("f", "ref Formatter"), ("w", "int")],
    "0 if len(c) < 2 else rows_content(c[:len(c) - 2], f, w) + rows_of(f, c[len(c) - 2], w)",
    "int", recursive=True,
)
SEC = "self._lines == rows_content(seq(self._content), self._formatter, self._terminal.g_width)"
R.abstractions[SEC_ADD := M_SEC + ":SectionOutput.add_content"] = [
    ("'\\n'.join((' ' * self._indent + s for s in content.split('\\n')))", "str",
     "indentation of every line of the new content; the row accounting below holds for whatever text results"),
]
c = R.contracts[SEC_ADD]
c.assumed = False
c.requires = ["[C15] " + SEC, "[C15] self._terminal.g_width >= 1"]
c.ensures = ["[C15] " + SEC, "[C15] len(self._content) >= old(len(self._content)) + 2"]
c.note = ""
# a section write in ANSI mode calls add_content: the accounting invariant is a precondition of every public operation
R.contracts[M_SEC + ":SectionOutput.write"].requires += ["[C15] " + SEC, "[C15] self._terminal.g_width >= 1"]
R.contracts[M_OUT + ":Output.write_line@SectionOutput"].requires += ["[C15] " + SEC, "[C15] self._terminal.g_width >= 1"]
R.contracts[M_SEC + ":SectionOutput.overwrite"].requires += ["[C15] " + SEC, "[C15] self._terminal.g_width >= 1"]
# a full clear keeps the accounting (nothing recorded, no rows); a partial clear(n) does not in general -- known finding
R.contracts[M_SEC + ":SectionOutput.clear"].ensures.append(
    "[C15] implies(old(%s) and (lines is None or lines == 0), %s)" % (SEC, SEC))
R.loop(
    SEC_ADD, 0,
    invariants=[SEC, "len(self._content) >= old(len(self._content)) + 2 * _i"],
    modifies=["self._lines", "items(self._content)"],
    fingerprint="line_content in content.split",
)

# ---------------------------------------------------------------- C11: indentation scopes
M_IND = "clikit.api.io.indent"
for n_out in (1, 2):
    pairs = list(range(n_out))
    distinct = " and ".join("outputs[%d] is not outputs[%d]" % (i, j) for i in pairs for j in pairs if i < j) or "True"
    R.contract(
        M_IND + ":Indent.__init__", variant="n%d" % n_out,
        params={"outputs": "list[ref Output]", "indent": "int", "increment": "bool"},
        requires=["len(outputs) == %d" % n_out, distinct],
        ensures=["self._outputs is outputs", "len(self._original_indents) == %d" % n_out] + [
            # the indentation in force before the scope is saved, the new one is installed on every output
            "self._original_indents[%d] == old(outputs[%d]._indent) and outputs[%d]._indent == "
            "(old(outputs[%d]._indent) + indent if increment else indent)" % (i, i, i, i) for i in pairs],
        modifies=["self._outputs", "self._original_indents"] + ["outputs[%d]._indent" % i for i in pairs],
    ).defaults = {"increment": False}
    R.contract(
        M_IND + ":Indent.__exit__", variant="n%d" % n_out,
        # (the three arguments are ignored by the body: absent on a normal exit, objects on an exceptional one)
        params={"exc_type": "none|ref object", "exc_val": "none|ref object", "exc_tb": "none"},
        returns="none",   # falsy: an exception raised in the block propagates
        requires=["len(self._outputs) == %d" % n_out, "len(self._original_indents) == %d" % n_out, distinct.replace("outputs", "self._outputs")],
        ensures=["self._outputs[%d]._indent == self._original_indents[%d]" % (i, i) for i in pairs],
        modifies=["self._outputs[%d]._indent" % i for i in pairs],
    )

# ---------------------------------------------------------------- C11: which outputs are decorated
# "an undecorated output never emits an escape byte": an output is undecorated when its formatter disables ANSI (the
# plain formatter - whatever the stream can do) or when the stream has no ANSI support and the formatter does not force
# it.  The constructor must classify the output accordingly: every escape-emitting path (sections, progress bars)
# asks supports_ansi(), i.e. this flag.
R.contract(
    M_OUT + ":Output.__init__", variant="classify",  # (a named case: callers keep executing the constructor itself)
    params={"stream": "ref OutputStream", "formatter": "ref Formatter"},
    ensures=[
        "self._stream is stream and self._formatter is formatter",
        "[C11,C09] implies(formatter.g_disable and not formatter.g_force, not self._format_output)",
        "[C11,C09] implies(not stream.g_ansi and not formatter.g_force, not self._format_output)",
        "[C11,C09] implies(formatter.g_force, self._format_output)",
        "[C11,C09] implies(stream.g_ansi and not formatter.g_disable, self._format_output)",
        "not self._quiet and self._verbosity == 0 and self._indent == 0 and len(self._section_outputs) == 0",
    ],
    modifies=["self._stream", "self._formatter", "self._quiet", "self._format_output", "self._verbosity",
              "self._section_outputs", "self._supports_utf8", "self._indent"],
    note="(the formatter=None default builds a NullFormatter: not part of this case)",
)
OUTPUT_INIT = {"qual": M_OUT + ":Output.__init__", "tag": "classify"}
