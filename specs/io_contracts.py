"""Contracts on the output classes (shared by C09, C10, C11, C15, C16, C19).

Ghost state: every OutputStream carries `g_out`, the sequence of payloads passed
to `write` so far (natively maintained by the replay / bounded wrappers).
"""
from pyvc.contracts import REG as R

M_OUT = "clikit.api.io.output"
M_SEC = "clikit.api.io.section_output"
M_IO = "clikit.api.io.io"
M_STREAM = "clikit.api.io.output_stream"
M_FMT = "clikit.api.formatter.formatter"

# ---------------------------------------------------------------- shapes
R.shape("OutputStream", external=True, ghost=("g_count", "g_last", "g_text"), g_count="int", g_last="str", g_text="str",
        g_ansi="bool", g_utf8="bool")
R.shape("Formatter", external=True, g_force="bool", g_disable="bool")
R.shape("Terminal", external=True, g_width="int")
R.shape(
    "Output",
    _stream="ref OutputStream",
    _formatter="ref Formatter",
    _quiet="bool",
    _format_output="bool",
    _verbosity="int",
    _section_outputs="list[ref SectionOutput]",
    _supports_utf8="bool",
    _indent="int",
)
R.shape(
    "SectionOutput",
    base="Output",
    _content="list[str]",
    _lines="int",
    _sections="list[ref SectionOutput]",
    _terminal="ref Terminal",
)
R.shape("Input", external=True, g_interactive="bool")
R.shape("IO", _input="ref Input", _output="ref Output", _error_output="ref Output", _terminal_dimensions="any")
R.shape("Indent", _outputs="list[ref Output]", _original_indents="list[int]")

# ---------------------------------------------------------------- spec functions
R.spec_fn(
    "min_level",
    [("flags", "int")],
    "1 if flags & 1 else (2 if flags & 2 else (4 if flags & 4 else 0))",
    "int",
)
# the gate of the property: not quiet and verbosity at least the lowest level requested by the flags
R.spec_fn(
    "gate",
    [("quiet", "bool"), ("verbosity", "int"), ("flags", "int")],
    "(not quiet) and verbosity >= min_level(flags)",
    "bool",
)
R.uf("fmt_format", ["ref Formatter", "str"], "str")
R.uf("fmt_remove", ["ref Formatter", "str"], "str")
R.uf("indent_text", ["str", "int"], "str")

VALID = "self._verbosity in (0, 1, 2, 4)"  # type invariant established by set_verbosity
GATE = "gate(self._quiet, self._verbosity, 0 if flags is None else flags)"
LAST = "self._stream.g_last"
STREAM_GHOST = ["self._stream.g_count", "self._stream.g_last", "self._stream.g_text"]


def ghost_of(stream):
    return [stream + ".g_count", stream + ".g_last", stream + ".g_text"]


def wrote_iff(gate, stream="self._stream"):
    """exactly one payload reaches the stream iff the gate holds, else the stream is untouched.
    Ghost: g_count = number of write() calls, g_last = last payload, g_text = everything written."""
    return (
        "({s}.g_count == old({s}.g_count) + 1 and {s}.g_text == old({s}.g_text) + {s}.g_last) if {g} else "
        "({s}.g_count == old({s}.g_count) and {s}.g_text == old({s}.g_text) and {s}.g_last == old({s}.g_last))"
    ).format(s=stream, g=gate)


# ---------------------------------------------------------------- assumed (external) contracts
R.contract(
    M_STREAM + ":OutputStream.write",
    params={"string": "str"},
    ensures=["self.g_count == old(self.g_count) + 1", "self.g_last == string", "self.g_text == old(self.g_text) + string"],
    modifies=["self.g_count", "self.g_last", "self.g_text"],
    assumed=True,
    note="abstract stream: write appends the payload to the ghost log, raises nothing",
)
R.contract(M_STREAM + ":OutputStream.flush", params={}, assumed=True)
R.contract(M_STREAM + ":OutputStream.supports_ansi", params={}, returns="bool", ensures=["result == self.g_ansi"], assumed=True)
R.contract(M_STREAM + ":OutputStream.supports_utf8", params={}, returns="bool", ensures=["result == self.g_utf8"], assumed=True)
R.contract(
    M_FMT + ":Formatter.format",
    params={"string": "str", "style": "any"},
    returns="str",
    ensures=["result == fmt_format(self, string)"],
    assumed=True,
    note="formatting is a function of formatter and text (the per-call style is ignored in this abstraction); "
    "raises nothing for balanced markup",
).defaults = {"style": None}
R.contract(
    M_FMT + ":Formatter.remove_format",
    params={"string": "str"},
    returns="str",
    ensures=["result == fmt_remove(self, string)"],
    assumed=True,
)
R.contract(M_FMT + ":Formatter.force_ansi", params={}, returns="bool", ensures=["result == self.g_force"], assumed=True)
R.contract(M_FMT + ":Formatter.disable_ansi", params={}, returns="bool", ensures=["result == self.g_disable"], assumed=True)

# ---------------------------------------------------------------- Output
R.contract(
    M_OUT + ":Output._may_write",
    params={"flags": "int?"},
    returns="bool",
    requires=[VALID],
    ensures=["result == " + GATE],
)

R.abstractions = getattr(R, "abstractions", {})
R.abstractions[M_OUT + ":Output.write"] = [
    (
        "'\\n'.join((' ' * self._indent + s if s else s for s in string.split('\\n')))",
        "str",
        "indentation of every non-empty line; its meaning is checked by the bounded tier of C11",
    )
]

WRITE_PARAMS = {"string": "str", "flags": "int?", "new_line": "bool", "with_indent": "bool"}

c = R.contract(
    M_OUT + ":Output.write",
    params=WRITE_PARAMS,
    requires=[VALID],
    ensures=[
        wrote_iff(GATE),
        # C11: a line write ends in exactly the newline that was asked for
        "implies(%s and new_line, %s.endswith('\\n'))" % (GATE, LAST),
        # C11: undecorated output goes through remove_format, decorated through format (when not indented)
        "implies(%s and not (self._indent > 0 and with_indent) and self._format_output, "
        "%s == fmt_format(self._formatter, string) + ('\\n' if new_line else ''))" % (GATE, LAST),
        "implies(%s and not (self._indent > 0 and with_indent) and not self._format_output, "
        "%s == fmt_remove(self._formatter, string) + ('\\n' if new_line else ''))" % (GATE, LAST),
    ],
    modifies=STREAM_GHOST,
)
c.defaults = {"flags": None, "new_line": False, "with_indent": True}

c = R.contract(
    M_OUT + ":Output.write_line",
    params={"string": "str", "flags": "int?"},
    requires=[VALID],
    ensures=[
        wrote_iff(GATE),
        "implies(%s, %s.endswith('\\n'))" % (GATE, LAST),
    ],
    modifies=STREAM_GHOST,
)
c.defaults = {"flags": None}

c = R.contract(
    M_OUT + ":Output.write_raw",
    params={"string": "str", "flags": "int?"},
    requires=[VALID],
    ensures=[wrote_iff(GATE), "implies(%s, %s == string)" % (GATE, LAST)],
    modifies=STREAM_GHOST,
)
c.defaults = {"flags": None}

c = R.contract(
    M_OUT + ":Output.write_line_raw",
    params={"string": "str", "flags": "int?"},
    requires=[VALID],
    ensures=[
        wrote_iff(GATE),
        "implies(%s, %s.endswith('\\n'))" % (GATE, LAST),
        # exactly one trailing newline: the text before it does not end in one
        "implies(%s, not %s[:-1].endswith('\\n'))" % (GATE, LAST),
    ],
    modifies=STREAM_GHOST,
)
c.defaults = {"flags": None}

R.contract(M_OUT + ":Output.is_quiet", params={}, returns="bool", ensures=["result == self._quiet"])
R.contract(M_OUT + ":Output.supports_ansi", params={}, returns="bool", ensures=["result == self._format_output"])

# ---------------------------------------------------------------- IO (delegation with the caller's flags)
IO_GATE_OUT = "gate(self._output._quiet, self._output._verbosity, 0 if flags is None else flags)"
IO_GATE_ERR = "gate(self._error_output._quiet, self._error_output._verbosity, 0 if flags is None else flags)"

for meth, out, g, line in (
    ("write", "self._output", IO_GATE_OUT, False),
    ("write_line", "self._output", IO_GATE_OUT, True),
    ("write_raw", "self._output", IO_GATE_OUT, False),
    ("write_line_raw", "self._output", IO_GATE_OUT, True),
    ("error", "self._error_output", IO_GATE_ERR, False),
    ("error_line", "self._error_output", IO_GATE_ERR, True),
    ("error_raw", "self._error_output", IO_GATE_ERR, False),
    ("error_line_raw", "self._error_output", IO_GATE_ERR, True),
):
    ens = [wrote_iff(g, out + "._stream")]
    if line:
        ens.append("implies(%s, %s._stream.g_last.endswith('\\n'))" % (g, out))
    c = R.contract(
        M_IO + ":IO." + meth,
        params={"string": "str", "flags": "int?"},
        requires=["%s._verbosity in (0, 1, 2, 4)" % out],
        ensures=ens,
        modifies=ghost_of(out + "._stream"),
    )
    c.defaults = {"flags": None}
