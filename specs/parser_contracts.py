"""Contracts on the option side of DefaultArgsParser (C02): only the documented errors escape, and the scan ends."""
from pyvc.contracts import REG as R
from . import format_contracts as fc
from . import builder_contracts as bc  # noqa: F401  (ArgsFormat query contracts)

M_P = "clikit.args.default_args_parser"
M_F = "clikit.api.args.format.args_format"
M_RAW = "clikit.api.args.raw_args"
P = M_P + ":DefaultArgsParser."

STORED = "none|bool|int|real|str|list[str]"
R.shape("DefaultArgsParser", _options="dict[str,%s]" % STORED, _arguments="dict[str,str|list[str]]")
R.shape("RawArgs", external=True, _tokens="list[str]", _option_tokens="list[str]")
R.contract(M_RAW + ":RawArgs.tokens", params={}, returns="list[str]", ensures=["result is self._tokens"], assumed=True,
           note="the token list of the raw arguments (both implementations return their list)").is_property = True

R.uf("fmt_opt", ["ref ArgsFormat", "str"], "ref Option")
# well-formed format (C06 / C07): a found option is registered under its own long name, which has >= 2 characters,
# its flag word is in normal form (multi-valued => value required; value-less => neither), short names are 1 letter
R.contract(
    M_F + ":ArgsFormat.get_option", params={"name": "str", "include_base": "bool"}, returns="ref Option",
    ensures=[
        "base_has_option(self, name)", "result is fmt_opt(self, name)",
        "base_has_option(self, result._long_name)", "fmt_opt(self, result._long_name) is result",
        "len(result._long_name) >= 2",
        "implies(bool(result._flags & 32), bool(result._flags & 8))",
        "implies(bool(result._flags & 4), not (result._flags & 8) and not (result._flags & 16) and not (result._flags & 32))",
        "isinstance(result._default, list) or not (result._flags & 32)",
    ],
    raises={"NoSuchOptionException": "not base_has_option(self, name)"},
    assumed=True,
    note="lookup in a well-formed format (the view and invariant of C06, the normal form of C07)",
).defaults = {"include_base": True}

# scratch invariant: everything stored belongs to the format, and multi-valued options hold lists
OPTINV = ("all((base_has_option(fmt, k) and (isinstance(self._options[k], list) or not (fmt_opt(fmt, k)._flags & 32))) "
          "for k in self._options)")
ERRS = {"CannotParseArgsException": "True", "NoSuchOptionException": "True"}
LISTS = ["items(self._options)", "items(tokens)", "LISTS(str)"]

# an option token is accepted only if the format has an option under EXACTLY the name that was typed (C02: "a token naming
# an unknown option is rejected as such"): normal return => the name is known; NoSuchOptionException => it is not
UNKNOWN = lambda name: {"CannotParseArgsException": "True", "NoSuchOptionException": "not base_has_option(fmt, %s)" % name}
R.contract(
    P + "_add_long_option",
    # (value is None or a string at every call site; the `value is False` test of the code is defensive)
    params={"name": "str", "value": "none|str", "tokens": "list[str]", "fmt": "ref ArgsFormat", "lenient": "bool"},
    requires=[OPTINV],
    ensures=[OPTINV, "base_has_option(fmt, name)"],
    raises=UNKNOWN("name"), modifies=LISTS,
)
R.contract(
    P + "_add_short_option",
    params={"name": "str", "value": "none|str", "tokens": "list[str]", "fmt": "ref ArgsFormat", "lenient": "bool"},
    requires=[OPTINV],
    ensures=[OPTINV, "base_has_option(fmt, name)"],
    raises=UNKNOWN("name"), modifies=LISTS,
)
R.contract(
    P + "_parse_short_option_set",
    params={"name": "str", "tokens": "list[str]", "fmt": "ref ArgsFormat", "lenient": "bool"},
    requires=[OPTINV, "len(name) >= 1"],
    # every letter that was looked at is a known short name -- the first one always is
    ensures=[OPTINV, "base_has_option(fmt, name[0])"],
    raises=ERRS, modifies=LISTS,
)
R.loop(P + "_parse_short_option_set", 0,
       invariants=[OPTINV, "all(base_has_option(fmt, name[j]) for j in range(_i))"], modifies=LISTS,
       fingerprint="range(0, length)")
# the long name a token '--name' / '--name=value' spells: everything after the first two characters, up to the first '='
LONGNAME = "(token[2:] if token[2:].find('=') == -1 else token[2:][:token[2:].find('=')])"
R.contract(
    P + "_parse_long_option",
    params={"token": "str", "tokens": "list[str]", "fmt": "ref ArgsFormat", "lenient": "bool"},
    requires=[OPTINV],
    ensures=[OPTINV, "base_has_option(fmt, %s)" % LONGNAME],
    raises=UNKNOWN(LONGNAME), modifies=LISTS,
)
R.contract(
    P + "_parse_short_option",
    params={"token": "str", "tokens": "list[str]", "fmt": "ref ArgsFormat", "lenient": "bool"},
    requires=[OPTINV, "len(token) >= 2"],
    # the first letter after the dash is a known short name (the following ones: value or further flags, see the set)
    ensures=[OPTINV, "base_has_option(fmt, token[1])"],
    raises=ERRS, modifies=LISTS,
)
R.contract(
    P + "_parse_argument",
    params={"token": "str", "fmt": "ref ArgsFormat", "lenient": "bool"},
    raises={"CannotParseArgsException": "not lenient"},
    modifies=["items(self._arguments)", "LISTS(str)"],
    assumed=True,
    note="positional side: decided by the bounded tier (its scratch map mixes strings and lists per argument kind)",
)
R.contract(
    P + "_parse",
    params={"raw_args": "ref RawArgs", "fmt": "ref ArgsFormat", "lenient": "bool"},
    requires=[OPTINV],
    ensures=[OPTINV],
    raises=ERRS,
    modifies=["items(self._options)", "items(self._arguments)", "LISTS(str)"],
    note="the classification loop: no IndexError / TypeError / KeyError for any token list, and it terminates",
)
# (no measure: the positional side is used through an assumed contract whose frame -- every list of strings -- is too
# coarse to keep the length of the local token list; termination of this loop is covered by the bounded tier)
R.loop(P + "_parse", 0, invariants=[OPTINV], may_diverge=True,
       modifies=["items(self._options)", "items(self._arguments)", "LISTS(str)"], fingerprint="True")
for q in ("_add_long_option", "_add_short_option", "_parse_short_option_set", "_parse_long_option", "_parse_short_option",
          "_parse"):
    R.contracts[P + q].no_frame = True
