"""Contracts on ProgressBar / ProgressIndicator (C16, C19)."""
from pyvc.contracts import REG as R
from . import io_contracts as ioc

M_PB = "clikit.ui.components.progress_bar"
M_PI = "clikit.ui.components.progress_indicator"
PB = M_PB + ":ProgressBar."
PI = M_PI + ":ProgressIndicator."

R.shape(
    "ProgressBar",
    _io="ref Output", _max="int", _step="int", _percent="real", _should_overwrite="bool",
    _min_seconds_between_redraws="real", _max_seconds_between_redraws="real", _write_count="int",
    _last_write_time="real", redraw_freq="int?", bar_width="int", bar_char="str?", empty_bar_char="str",
    progress_char="str",
    # ghost: number of frames drawn, and the (step, max) the last frame shows
    g_frames="int", g_shown_step="int", g_shown_max="int",
)
# representation invariant of the bar
R.spec_fn(
    "pb_core", [("b", "ref ProgressBar")],
    "b._max >= 0 and b._step >= 0 and (b._max == 0 or b._step <= b._max) and "
    "(b.redraw_freq is None or b.redraw_freq >= 1) and b._min_seconds_between_redraws >= 0",
    "bool",
)
R.spec_fn(
    "pb_inv", [("b", "ref ProgressBar")],
    "pb_core(b) and b._percent == (b._step / b._max if b._max != 0 else 0.0)",
    "bool",
)
FRAME_GHOST = ["self.g_frames", "self.g_shown_step", "self.g_shown_max", "self._last_write_time", "self._write_count",
               "CLOCK"] + ["self._io._stream.g_count", "self._io._stream.g_last", "self._io._stream.g_text"]

R.contract(
    PB + "display", params={},
    requires=["pb_inv(self)"],
    ensures=[
        # a quiet output receives nothing
        "implies(self._io._quiet, self.g_frames == old(self.g_frames) and self._last_write_time == old(self._last_write_time)"
        " and self._io._stream.g_count == old(self._io._stream.g_count))",
        # otherwise exactly one frame, showing the current state, stamped with the current time
        "implies(not self._io._quiet, self.g_frames == old(self.g_frames) + 1 and self.g_shown_step == self._step and "
        "self.g_shown_max == self._max and self._last_write_time == now())",
        "now() >= old(now())",
    ],
    modifies=FRAME_GHOST,
    assumed=True,
    note="display() = format placeholders (re.sub, external) + _overwrite; its frame accounting is assumed here, the content "
         "of frames is checked by the bounded tier",
)

R.contract(
    PB + "set_progress", params={"step": "int"},
    requires=["pb_core(self)"],
    ensures=[
        "pb_inv(self)",
        # clamping and growth of the maximum
        "self._step == (0 if step < 0 and not (old(self._max) != 0 and step > old(self._max)) else step)",
        "self._max == (step if (old(self._max) != 0 and step > old(self._max)) else old(self._max))",
        # reaching the maximum always draws (unless quiet)
        "implies(self._step == self._max and not self._io._quiet, self.g_frames == old(self.g_frames) + 1)",
        # a frame caused by advancing (not by reaching the maximum) is at least the minimum interval after the last one
        "implies(self.g_frames > old(self.g_frames) and self._step != self._max, "
        "self._last_write_time - old(self._last_write_time) >= self._min_seconds_between_redraws)",
        "self.g_frames == old(self.g_frames) or self.g_frames == old(self.g_frames) + 1",
        "implies(self.g_frames > old(self.g_frames), self.g_shown_step == self._step and self.g_shown_max == self._max)",
        "implies(self._io._quiet, self.g_frames == old(self.g_frames))",
    ],
    modifies=FRAME_GHOST + ["self._max", "self._step", "self._percent"],
)
R.contract(
    PB + "advance", params={"step": "int"},
    requires=["pb_inv(self)"],
    ensures=["pb_inv(self)"],
    modifies=FRAME_GHOST + ["self._max", "self._step", "self._percent"],
).defaults = {"step": 1}
R.contract(
    PB + "finish", params={},
    requires=["pb_inv(self)"],
    ensures=[
        "pb_core(self)",
        "self._step == self._max",
        # (on a plain output a bar started without a maximum is not redrawn by finish(): its percentage stays 0)
        "implies(self._max > 0 and (self._should_overwrite or old(self._max) != 0), self._percent == 1)",
        # on an overwriting (ANSI) output finishing always draws the final frame
        "implies(self._should_overwrite and not self._io._quiet, self.g_frames == old(self.g_frames) + 1 and "
        "self.g_shown_step == self._max and self.g_shown_max == self._max)",
    ],
    modifies=FRAME_GHOST + ["self._max", "self._step", "self._percent"],
)

ONECHAR = ("len(self.progress_char) == 1 and len(self.empty_bar_char) == 1 and (self.bar_char is None or len(self.bar_char) == 1)"
           " and fmt_remove(self._io._formatter, self.progress_char) == self.progress_char")
R.contract(
    PB + "_formatter_bar", params={}, returns="str",
    requires=["pb_inv(self)", "self.bar_width >= 1", ONECHAR, "self._write_count >= 0"],
    ensures=["len(result) == self.bar_width"],
    note="the bar segment is exactly bar_width characters wide (floats as reals)",
)
R.contract(
    PB + "_formatter_percent", params={}, returns="int",
    requires=["pb_inv(self)"],
    ensures=["implies(self._max > 0, result * self._max <= 100 * self._step and 100 * self._step < (result + 1) * self._max)",
             "implies(self._max == 0, result == 0)", "0 <= result and result <= 100"],
    note="floor(100 * step / max) over the reals (the float companion is bounded)",
)

# ---------------------------------------------------------------- ProgressIndicator
R.shape(
    "ProgressIndicator",
    _io="ref Output", _fmt="str", _interval="int", _values="list[str]", _message="str?", _update_time="int?",
    _started="bool", _current="int", g_frames="int", g_last_frame_after_join="bool",
)
PI_GHOST = ["self.g_frames", "self.g_last_frame_after_join", "CLOCK", "self._io._stream.g_count", "self._io._stream.g_last", "self._io._stream.g_text"]
R.contract(
    PI + "_display", params={},
    requires=[ioc.VALID.replace("self.", "self._io.")],
    ensures=["implies(self._io._quiet, self.g_frames == old(self.g_frames))",
             "implies(not self._io._quiet, self.g_frames == old(self.g_frames) + 1)", "now() >= old(now())"],
    modifies=PI_GHOST,
    assumed=True,
    note="_display() = format placeholders (re.sub, external) + _overwrite",
)
R.contract(
    PI + "advance", params={},
    requires=["self._update_time is not None", "self._interval >= 0", ioc.VALID.replace("self.", "self._io.")],
    ensures=[
        # manual mode: a redraw happens only when the interval has elapsed, and re-arms the timer
        "implies(self.g_frames > old(self.g_frames), self._update_time >= old(self._update_time) + self._interval)",
        "implies(self.g_frames == old(self.g_frames), self._update_time == old(self._update_time) or self._io._quiet)",
        "implies(not self._io._format_output, self.g_frames == old(self.g_frames))",
    ],
    raises={"RuntimeError": "not self._started"},
    modifies=PI_GHOST + ["self._update_time", "self._current"],
)
R.contract(
    PI + "current_value", params={}, returns="str",
    # deliberately NO assumption on the position counter: the spinner thread and the caller share it without a lock, so a
    # frame may be built in ANY state another thread's advance() passes through -- the value shown must be one of the
    # indicator values, and building it must not fail, whatever the counter holds
    requires=["len(self._values) >= 1"],
    ensures=["result in self._values"],
    modifies=[],
    note="total on every value of the shared position counter (sequential reduction of the interleaving clause: no "
         "intermediate state of advance() can make a frame unbuildable)",
).is_property = True
R.shape("ProgressIndicator", _start_time="real?")
R.contract(
    PI + "start", params={"message": "str"},
    requires=["self._interval >= 0", ioc.VALID.replace("self.", "self._io.")],
    ensures=[
        "self._started and self._message == message and self._current == 0",
        # every start arms the timer one interval after the moment of THIS start (round() moves a reading by at most half a
        # millisecond), so the first redraw by advance() is an interval away however often the indicator was used before
        "self._update_time is not None and self._update_time >= old(now()) * 1000 - 1 + self._interval",
        "implies(not self._io._quiet, self.g_frames == old(self.g_frames) + 1)",
    ],
    raises={"RuntimeError": "self._started"},
    modifies=PI_GHOST + ["self._message", "self._started", "self._start_time", "self._update_time", "self._current"],
)
R.contract(
    PI + "_overwrite", params={"message": "str"},
    requires=[ioc.VALID.replace("self.", "self._io."), "self._io._indent == 0"],
    ensures=[
        # one frame = one write: the erase code and the text must not be separable by another thread's frame
        "self._io._stream.g_count == old(self._io._stream.g_count) + (0 if self._io._quiet else 1)",
    ],
    modifies=["self._io._stream.g_count", "self._io._stream.g_last", "self._io._stream.g_text"],
)

# ---------------------------------------------------------------- C19: leaving the automatic mode
R.shape("ThreadEvent", external=True, g_set="bool")
R.shape("Thread", external=True, g_joined="bool")
R.shape("ProgressIndicator", _auto_running="ref ThreadEvent?", _auto_thread="ref Thread?",
        g_last_frame_after_join="bool")
R.contract("threading:ThreadEvent.set", params={}, ensures=["self.g_set"], modifies=["self.g_set"], assumed=True,
           note="threading.Event.set()")
R.contract("threading:Thread.join", params={}, ensures=["self.g_joined"], modifies=["self.g_joined"], assumed=True,
           note="threading.Thread.join() returns once the thread has ended")
c = R.contracts[PI + "_display"]
c.ensures = c.ensures + ["[def] self.g_last_frame_after_join == (self._auto_thread is None or self._auto_thread.g_joined)"]
R.contract(
    PI + "finish", params={"message": "str", "reset_indicator": "bool"},
    requires=[ioc.VALID.replace("self.", "self._io."), "(self._auto_thread is None) == (self._auto_running is None)"],
    ensures=[
        "not self._started",
        "self._message == message",
        # the spinner is told to stop and is joined ...
        "implies(self._auto_thread is not None, self._auto_running.g_set and self._auto_thread.g_joined)",
        # ... BEFORE the end message is drawn, so no spinner frame can follow it
        "implies(not self._io._quiet, self.g_frames == old(self.g_frames) + 1 and self.g_last_frame_after_join)",
    ],
    raises={"RuntimeError": "not self._started"},
    modifies=PI_GHOST + ["self._message", "self._current", "self._started",
                         "ANY.g_set", "ANY.g_joined"],
).defaults = {"reset_indicator": False}

# ---- ProgressBar.clear(): blanking the line must not reset the throttle -------------------------------------------
# (C16: "redraws caused by advancing are no closer together than the configured minimum interval" -- the interval is
#  measured from the last write, whatever wrote; clear() writes, so the stamp may only move forward)
R.shape("ProgressBar", _format="str?", _internal_format="str?", _format_line_count="int", _last_messages_length="int?")
OVERWRITE_MODS = ["self._last_write_time", "self._write_count", "self._last_messages_length", "CLOCK",
                  "self._io._stream.g_count", "self._io._stream.g_last", "self._io._stream.g_text"]
R.contract(
    PB + "_overwrite", params={"message": "str"},
    ensures=["self._last_write_time == now()", "now() >= old(now())", "self._write_count == old(self._write_count) + 1"],
    modifies=OVERWRITE_MODS, assumed=True,
    note="_overwrite pads, moves the cursor, writes and stamps the time of the write (its bytes: bounded tier)",
)
R.contract(PB + "_set_real_format", params={"fmt": "str"},
           ensures=["self._format is not None", "self._format_line_count >= 0"],
           modifies=["self._format", "self._format_line_count"], assumed=True,
           note="chooses the format text and counts its line breaks")
R.contract(PB + "_determine_best_format", params={}, returns="str", modifies=[], assumed=True)
R.contract(
    PB + "clear", params={},
    requires=["self._last_write_time <= now()", "self._format_line_count >= 0"],
    ensures=[
        # the throttle stamp never moves backwards, and it moves only when something was written
        "self._last_write_time >= old(self._last_write_time)",
        "implies(not self._should_overwrite, self._last_write_time == old(self._last_write_time) and "
        "self._io._stream.g_count == old(self._io._stream.g_count))",
        # clearing is not progress
        "self._step == old(self._step) and self._max == old(self._max) and self._percent == old(self._percent)",
    ],
    modifies=OVERWRITE_MODS + ["self._format", "self._format_line_count"],
)
