"""Contracts on Question (C18): attempt accounting and termination of the retry loop."""
import z3

from pyvc.contracts import REG as R
from pyvc.kinds import Kind
from pyvc.state import V, Out, VNONE
from . import io_contracts as ioc  # noqa: F401

M_Q = "clikit.ui.components.question"
VA = M_Q + ":Question._validate_attempts"

R.shape(
    "Question",
    _attempts="int?", _validator="fn?", _default="none|bool|int|str|list[str]",
    # ghost: lines left on the input, interviewer calls so far, errors printed so far
    g_left="int", g_asks="int", g_errors="int",
)
R.contract(
    M_Q + ":Question._write_error",
    params={"io": "ref IO", "error": "exc Exception"},
    ensures=["self.g_errors == old(self.g_errors) + 1"],
    modifies=["self.g_errors"],
    assumed=True,
    note="prints one error line (its text is checked by the bounded tier)",
)
ASKS = "(self.g_asks - old(self.g_asks))"
ERRS = "(self.g_errors - old(self.g_errors))"
R.contract(
    VA,
    params={"interviewer": "fn", "io": "ref IO"},
    returns="any",
    requires=["self._attempts is None or self._attempts >= 1", "self.g_left >= 0", "self._validator is not None"],
    ensures=[
        # a valid answer ends the question; every earlier entry was invalid, consumed one attempt and printed one error
        "%s >= 1 and %s == %s - 1" % (ASKS, ERRS, ASKS),
        "implies(self._attempts is not None, %s <= self._attempts)" % ASKS,
    ],
    raises={"RuntimeError": "True", "Exception": "self._attempts is not None"},
    ensures_on_raise={
        # the question fails after exactly the configured number of attempts, having printed one error less
        # (the last error is raised, not printed)
        "Exception": ["%s == old(self._attempts)" % ASKS, "%s == %s - 1" % (ERRS, ASKS)],
    },
    modifies=["self.g_left", "self.g_asks", "self.g_errors"],
)
R.loop(
    VA, 0,
    invariants=[
        "self.g_left >= 0",
        "%s >= 0 and ((error is None) == (%s == 0))" % (ASKS, ASKS),
        # errors printed so far: one per invalid entry except the latest (printed at the start of the next round)
        "%s == (%s - 1 if %s >= 1 else 0)" % (ERRS, ASKS, ASKS),
        "(attempts is None) == (old(self._attempts) is None)",
        "implies(attempts is not None, attempts >= 0 and attempts == old(self._attempts) - %s)" % ASKS,
    ],
    decreases="self.g_left",
    modifies=["self.g_left", "self.g_asks", "self.g_errors"],
    var_kinds={"error": "none|exc Exception", "attempts": "int?"},
    fingerprint="attempts",
)


def opaque_question(E, st, fn, args, kwargs):
    """interviewer(): reads exactly one line (ghost g_left) and returns the normalised answer, or aborts with
    RuntimeError at the end of the input; the validator returns a value or raises."""
    fr = E.frames[0]
    selfv = fr.params["self"]
    iv = fr.params.get("interviewer")
    res = []

    def bump(s, field, delta):
        k = Kind("int")
        cur = E._read_alt(s, selfv.t, field, k)
        return E.write_field(s, selfv, field, k, V(k, cur.t + delta))
    left = E._read_alt(st, selfv.t, "g_left", Kind("int")).t
    if iv is not None and fn.t is iv.t or (hasattr(fn.t, "eq") and iv is not None and hasattr(iv.t, "eq") and fn.t.eq(iv.t)):
        E.trusted.add("opaque callable (interviewer): consumes exactly one input line per call and returns a string, "
                      "or raises RuntimeError('Aborted') when no line is left; its own failures consume the line too")
        # a line is available
        s1 = st.assume(left > 0)
        if E.feasible(s1):
            s1 = bump(bump(s1, "g_left", -1), "g_asks", 1)
            res.append(Out("ok", s1, E.fresh(Kind("str"), "answer")))
            s2, e = E.mk_exc(s1, "Exception")
            e.aux["abstract"] = True
            res.append(Out("raise", s2, e))
        # end of input: aborted
        s3 = st.assume(left == 0)
        if E.feasible(s3):
            s3 = bump(s3, "g_asks", 1)
            s4, e = E.mk_exc(s3, "RuntimeError")
            res.append(Out("raise", s4, e))
        return res
    E.trusted.add("opaque callable (validator): returns any value or raises; touches no field of the question")
    for k in ("str", "int", "list[str]", "none"):
        kk = __import__("pyvc.kinds", fromlist=["parse_kind"]).parse_kind(k)
        v = E.fresh(kk, "valid")
        res.append(Out("ok", E.assume_valid_ref(st, v), v))
    s2, e = E.mk_exc(st, "Exception")
    e.aux["abstract"] = True
    res.append(Out("raise", s2, e))
    return res


# ---------------------------------------------------------------- non-interactive short-circuit (C18, C09)
R.contract(
    M_Q + ":Question._do_ask", params={"io": "ref IO"}, returns="none|bool|int|str|list[str]",
    ensures=["self.g_asks == old(self.g_asks) + 1"], raises={"Exception": "True"},
    modifies=["self.g_left", "self.g_asks"], assumed=True,
    note="prompt + read + default + normaliser: one interview (its I/O is checked by the bounded tier)",
)
R.contract(
    M_Q + ":Question.ask", params={"io": "ref IO"}, returns="any",
    requires=["self._attempts is None or self._attempts >= 1", "self.g_left >= 0"],
    ensures=[
        # on a non-interactive input the question returns its default as it is -- nothing is asked, validated or printed
        "implies(not io._input._interactive, result == self._default and self.g_asks == old(self.g_asks) "
        "and self.g_errors == old(self.g_errors))",
        "implies(io._input._interactive, self.g_asks >= old(self.g_asks) + 1)",
    ],
    raises={"Exception": "io._input._interactive"},
    modifies=["self.g_left", "self.g_asks", "self.g_errors"],
)
