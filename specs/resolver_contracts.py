"""Contracts on the resolvers (C03, C17)."""
from pyvc.contracts import REG as R
from . import app_contracts as ac  # noqa: F401

M_HELP = "clikit.resolver.help_resolver"
M_DEF = "clikit.resolver.default_resolver"
M_RES = "clikit.resolver.resolve_result"
M_CMD = "clikit.api.command.command"

R.shape("CommandConfig", _lenient_args_parsing="bool?")
R.shape("Command", _config="ref CommandConfig", g_status=ac.STATUS, g_handler_calls="int", g_interrupted="bool")
R.shape("ResolveResult", _command="ref Command", _raw_args="ref RawArgs", _parsed_args="ref Args?",
        _parse_error="none|exc CannotParseArgsException", _parsed="bool")
R.shape("HelpResolver", _help_command_name="str")
R.shape("DefaultResolver")

R.contract(
    M_CMD + ":Command.parse",
    params={"args": "ref RawArgs", "lenient": "bool?"},
    returns="ref Args",
    raises={"Exception": "True"},
    modifies=[],
    assumed=True,
    note="parsing reads the configuration and does not change it (parser purity is C05)",
).defaults = {"lenient": None}

LEN = "arg_result._command._config._lenient_args_parsing"
R.contract(
    M_HELP + ":HelpResolver.create_resolved_command",
    params={"result": "ref ResolveResult"},
    returns="ref ResolvedCommand",
    ensures=["%s is old(%s) or %s == old(%s)" % (LEN, LEN, LEN, LEN)],
    raises={"Exception": "True"},
    ensures_on_raise={"Exception": ["%s is old(%s) or %s == old(%s)" % (LEN, LEN, LEN, LEN)]},
    modifies=[LEN.replace("arg_result", "result")],
    note="temporary leniency is restored on every exit, normal or exceptional",
)

# ---------------------------------------------------------------- leading-token extraction (C03)
R.spec_fn("plain_token", [("t", "str")], "len(t) > 0 and t != '--' and not t.startswith('-')", "bool")
GAT = M_DEF + ":DefaultResolver.get_arguments_to_test"
R.local_kinds = getattr(R, "local_kinds", {})
R.local_kinds[GAT] = {"arguments_to_test": "list[str]"}
T = "iter_seq(tokens)"
P0 = "old(iter_pos(tokens))"
R.contract(
    GAT,
    params={"tokens": "iter[str]"},
    returns="list[str]",
    ensures=[
        # the result is the longest prefix of the remaining tokens made of plain (non-empty, non-option, non '--') tokens
        "0 <= %s and %s <= len(%s) - len(result)" % (P0, P0, T),
        "seq(result) == %s[%s:%s + len(result)]" % (T, P0, P0),
        "all(implies(0 <= j and j < len(%s), plain_token(%s[j])) for j in range(%s, %s + len(result)))" % (T, T, P0, P0),
        "0 <= %s and %s + len(result) <= len(%s) and "
        "(%s + len(result) == len(%s) or not plain_token(%s[%s + len(result)]))" % (P0, P0, T, P0, T, T, P0),
        # the iterator stands just after the first token that is not part of the result
        "iter_pos(tokens) == (%s + len(result) + 1 if %s + len(result) < len(%s) else len(%s))" % (P0, P0, T, T),
        "iter_seq(tokens) == old(iter_seq(tokens))",
    ],
    modifies=["ITER(tokens)"],
)
R.loop(
    GAT, 0,
    invariants=[
        "iter_seq(tokens) == old(iter_seq(tokens))",
        "all(implies(0 <= j and j < len(%s), plain_token(%s[j])) for j in range(%s, %s + len(arguments_to_test)))" % (T, T, P0, P0),
        "0 <= %s and %s <= iter_pos(tokens) and iter_pos(tokens) <= len(%s) and "
        "implies(token is None, iter_pos(tokens) == len(%s) and seq(arguments_to_test) == %s[%s:len(%s)]) and "
        "implies(token is not None, iter_pos(tokens) >= %s + 1 and token == %s[iter_pos(tokens) - 1] and "
        "seq(arguments_to_test) == %s[%s:iter_pos(tokens) - 1])" % (P0, P0, T, T, T, P0, T, P0, T, T, P0),
    ],
    decreases="len(%s) - iter_pos(tokens) + (0 if token is None else 1)" % T,
    modifies=["items(arguments_to_test)", "ITER(tokens)"],
    var_kinds={"token": "str?"},
    fingerprint="token",
)

# ---------------------------------------------------------------- name lookup and the walk down the command tree (C03)
M_COLL = "clikit.api.command.command_collection"
R.shape("CommandCollection", _commands="odict[str, ref Command]", _short_name_index="odict[str, str]",
        _alias_index="odict[str, str]")
R.shape("Command", _named_sub_commands="ref CommandCollection", _default_sub_commands="ref CommandCollection")
# the abstract view of a collection used by the resolver contracts: which names it knows and what they denote.
# (uninterpreted functions of the collection object and the name: the resolver changes no collection -- frame
# obligations below -- so the view is the same at every point of one resolution)
R.uf("cc_has", ["ref CommandCollection", "str"], "bool", native=lambda coll, name: name in coll)
R.uf("cc_get", ["ref CommandCollection", "str"], "ref Command", native=lambda coll, name: coll.get(name))

CC_HAS = "(name in self._commands or name in self._short_name_index or name in self._alias_index)"
CONTAINS = M_COLL + ":CommandCollection.__contains__"
R.contract(
    CONTAINS, params={"name": "str"}, returns="bool",
    ensures=[
        # a name is known iff it is a command name, a short name or an alias
        "result == %s" % CC_HAS,
        "[def] result == cc_has(self, name)",
    ],
    modifies=[],
)
CC_GET = M_COLL + ":CommandCollection.get"
IN_S = "(name not in self._commands and name in self._short_name_index)"
IN_A = "(name not in self._commands and name not in self._short_name_index and name in self._alias_index)"
R.contract(
    CC_GET, params={"name": "str"}, returns="ref Command",
    ensures=[
        # name first, then short name, then alias
        "implies(name in self._commands, result is self._commands[name])",
        "implies(%s, self._short_name_index[name] in self._commands and result is self._commands[self._short_name_index[name]])" % IN_S,
        "implies(%s, self._alias_index[name] in self._commands and result is self._commands[self._alias_index[name]])" % IN_A,
        "[def] result is cc_get(self, name)",
    ],
    raises={"NoSuchCommandException": "not %s" % CC_HAS,
            # an index entry whose command is gone (CommandCollection.add stores the command first, so never in practice)
            "KeyError": "(%s and self._short_name_index[name] not in self._commands) or "
                        "(%s and self._alias_index[name] not in self._commands)" % (IN_S, IN_A)},
    modifies=[],
)

# wcmd(c, names, i): the command reached from command c by matching names[i:] against the named sub-commands, level by
# level, until a token names no sub-command (or the tokens run out) -- "the longest prefix that names a path"
R.uf("subs_of", ["ref Command"], "ref CommandCollection", native=lambda c: c.named_sub_commands)
R.spec_fn(
    "wcmd", [("c", "ref Command"), ("names", "seq[str]"), ("i", "int")],
    "c if (i < 0 or i >= len(names) or not cc_has(subs_of(c), names[i])) else wcmd(cc_get(subs_of(c), names[i]), names, i + 1)",
    "ref Command", recursive=True,
)
R.contract(M_CMD + ":Command.named_sub_commands", params={}, returns="ref CommandCollection",
           ensures=["result is self._named_sub_commands", "[def] result is subs_of(self)"], modifies=[]).is_property = True
R.contract(M_CMD + ":Command.default_sub_commands", params={}, returns="ref CommandCollection",
           ensures=["result is self._default_sub_commands"], modifies=[]).is_property = True

# ---- the default rule: first parsable default (sub-)command, else the first one --------------------------------------
R.uf("cc_cmds", ["ref CommandCollection"], "seq[ref Command]", native=lambda coll: list(coll))
R.uf("dsubs_of", ["ref Command"], "ref CommandCollection", native=lambda c: c.default_sub_commands)
R.uf("parsable", ["ref Command", "ref RawArgs"], "bool")
R.contracts[M_CMD + ":Command.default_sub_commands"].ensures.append("[def] result is dsubs_of(self)")
R.contract(M_COLL + ":CommandCollection.__iter__", params={}, returns="iter[ref Command]",
           ensures=["fresh(result)", "iter_seq(result) == cc_cmds(self)", "iter_pos(result) == 0"], modifies=[], assumed=True,
           note="iteration over the commands in registration order (the abstract view cc_cmds)")
R.contract(M_RES + ":ResolveResult.is_parsable", params={}, returns="bool",
           ensures=["result == parsable(self._command, self._raw_args)", "self._command is old(self._command)",
                    "self._raw_args is old(self._raw_args)"],
           raises={"Exception": "True"},
           modifies=["self._parsed", "self._parsed_args", "self._parse_error"], assumed=True,
           note="parses lazily once; whether the command's format accepts the raw arguments is the abstract predicate "
                "`parsable` (the parser itself: C01/C02)")
# fp(S, a, i): the first command of S[i:] that can parse a, else S[0]
R.uf("no_command", ["int"], "ref Command")  # (only to make fp total: the value for an empty collection is never used)
R.spec_fn(
    "fp", [("S", "seq[ref Command]"), ("a", "ref RawArgs"), ("i", "int")],
    "(S[0] if len(S) > 0 else no_command(0)) if (i < 0 or i >= len(S)) else (S[i] if parsable(S[i], a) else fp(S, a, i + 1))",
    "ref Command", recursive=True,
)
PDC = M_DEF + ":DefaultResolver.process_default_commands"
R.contract(
    PDC, params={"args": "ref RawArgs", "default_commands": "ref CommandCollection"}, returns="ref ResolveResult?",
    ensures=[
        "(result is None) == (len(cc_cmds(default_commands)) == 0)",
        # the first default command that can parse the arguments, else the first default command
        "implies(result is not None, fresh(result) and result._raw_args is args and "
        "result._command is fp(cc_cmds(default_commands), args, 0))",
    ],
    raises={"Exception": "True"},
    modifies=[],
)
SDC = "cc_cmds(default_commands)"
R.loop(
    PDC, 0,
    invariants=[
        "fp(%s, args, 0) is fp(%s, args, _i)" % (SDC, SDC),
        "(_i == 0 and first_result is None) or (_i >= 1 and first_result is not None and fresh(first_result) and "
        "first_result._command is %s[0] and first_result._raw_args is args)" % SDC,
    ],
    modifies=[],
    var_kinds={"first_result": "ref ResolveResult?", "resolved_command": "ref ResolveResult", "default_command": "ref Command"},
    fingerprint="default_command in default_commands",
)


def sel(c):
    """the command selected when the path of names ends at command c: its first parsable default sub-command, else its
    first default sub-command, else c itself"""
    return "(%s if len(cc_cmds(dsubs_of(%s))) == 0 else fp(cc_cmds(dsubs_of(%s)), args, 0))" % (c, c, c)


PDSC = M_DEF + ":DefaultResolver.process_default_sub_commands"
R.contract(
    PDSC, params={"args": "ref RawArgs", "current_command": "ref Command"}, returns="ref ResolveResult",
    ensures=["result._command is %s" % sel("current_command"), "result._raw_args is args"],
    raises={"Exception": "True"}, modifies=[],
)
PO = M_DEF + ":DefaultResolver.process_options"
R.contract(
    PO, params={"args": "ref RawArgs", "current_command": "ref Command", "options_to_test": "list[str]"},
    returns="ref ResolveResult",
    # options after the path never change the selection: the default rule starts from the command the path reached
    ensures=["result._command is %s" % sel("current_command"), "result._raw_args is args"],
    raises={"Exception": "True"}, modifies=[],
)
R.loop(PO, 0, invariants=["True"], modifies=[], fingerprint="option in options_to_test")

PA = M_DEF + ":DefaultResolver.process_arguments"
N = "seq(arguments_to_test)"
HAS0 = "(len(arguments_to_test) > 0 and cc_has(named_commands, arguments_to_test[0]))"
FIRST = "cc_get(named_commands, arguments_to_test[0])"
R.contract(
    PA,
    params={"args": "ref RawArgs", "named_commands": "ref CommandCollection", "arguments_to_test": "list[str]",
            "options_to_test": "list[str]"},
    returns="ref ResolveResult?",
    ensures=[
        # nothing is selected iff the first leading token names no command (or there is none)
        "(result is None) == (not %s)" % HAS0,
        # otherwise: the command reached by the longest prefix of the leading tokens that names a path of commands,
        # continued into its default sub-command if it has one -- whatever the options are
        "implies(%s, result._command is %s and result._raw_args is args)" % (HAS0, sel("wcmd(%s, %s, 1)" % (FIRST, N))),
    ],
    raises={"Exception": "True"},
    modifies=[],
)
R.loop(
    PA, 0,
    invariants=[
        "(current_command is None and _i == 0 and named_commands is old(named_commands)) or "
        "(current_command is not None and _i >= 1 and named_commands is subs_of(current_command) and %s and "
        "wcmd(%s, %s, 1) is wcmd(current_command, %s, _i))"
        % (HAS0.replace("named_commands", "old(named_commands)"), FIRST.replace("named_commands", "old(named_commands)"), N, N),
    ],
    modifies=[],
    var_kinds={"current_command": "ref Command?", "next_command": "ref Command", "named_commands": "ref CommandCollection"},
    fingerprint="name in arguments_to_test",
)

# ---- create_resolved_command -------------------------------------------------------------------------------------
M_RAW = "clikit.api.args.raw_args"
M_APPI = "clikit.api.application.application"
R.shape("RawArgs", external=True, _tokens="list[str]")
R.contract(M_RAW + ":RawArgs.tokens", params={}, returns="list[str]", ensures=["result is self._tokens"], modifies=[],
           assumed=True, note="the token list of the raw arguments (ArgvArgs / StringArgs: C08)").is_property = True
R.shape("Application", external=True, g_named="ref CommandCollection", g_default="ref CommandCollection")
R.contract(M_APPI + ":Application.named_commands", params={}, returns="ref CommandCollection",
           ensures=["result is self.g_named"], modifies=[], assumed=True).is_property = True
R.contract(M_APPI + ":Application.default_commands", params={}, returns="ref CommandCollection",
           ensures=["result is self.g_default"], modifies=[], assumed=True).is_property = True
R.contract(M_DEF + ":DefaultResolver.get_options_to_test", params={"tokens": "iter[str]"}, returns="list[str]",
           ensures=["fresh(result)", "iter_seq(tokens) == old(iter_seq(tokens))"], modifies=["ITER(tokens)"], assumed=True,
           note="option names behind the leading tokens; they never take part in the selection (process_options.post)")
R.shape("ResolvedCommand", _command="ref Command", _args="ref Args?")
R.contract(M_RES + ":ResolveResult.command", params={}, returns="ref Command", ensures=["result is self._command"],
           modifies=[]).is_property = True
R.contract(M_RES + ":ResolveResult.parsed_args", params={}, returns="ref Args?", raises={"Exception": "True"},
           modifies=["self._parsed", "self._parsed_args", "self._parse_error"], assumed=True).is_property = True
R.contract(M_RES + ":ResolveResult.parse_error", params={}, returns="exc CannotParseArgsException",
           requires=["not parsable(self._command, self._raw_args)"], raises={"Exception": "True"},
           modifies=["self._parsed", "self._parsed_args", "self._parse_error"], assumed=True,
           note="the error of the (failed) lazy parse").is_property = True
CRC = M_DEF + ":DefaultResolver.create_resolved_command"
R.contract(
    CRC, params={"result": "ref ResolveResult"}, returns="ref ResolvedCommand",
    ensures=["fresh(result)", "result._command is arg_result._command", "parsable(arg_result._command, arg_result._raw_args)"],
    raises={"Exception": "True"},
    modifies=["result._parsed", "result._parsed_args", "result._parse_error"],
)
