"""Contracts on the resolvers (C03, C17)."""
from pyvc.contracts import REG as R
from . import app_contracts as ac  # noqa: F401

M_HELP = "clikit.resolver.help_resolver"
M_DEF = "clikit.resolver.default_resolver"
M_RES = "clikit.resolver.resolve_result"
M_CMD = "clikit.api.command.command"

R.shape("CommandConfig", _lenient_args_parsing="bool?")
R.shape("Command", _config="ref CommandConfig", g_status=ac.STATUS, g_handler_calls="int", g_interrupted="bool")
R.shape("ResolveResult", _command="ref Command", _raw_args="ref RawArgs", _parsed_args="ref Args?",
        _parse_error="none|exc CannotParseArgsException", _parsed="bool")
R.shape("HelpResolver", _help_command_name="str")
R.shape("DefaultResolver")

R.contract(
    M_CMD + ":Command.parse",
    params={"args": "ref RawArgs", "lenient": "bool?"},
    returns="ref Args",
    raises={"Exception": "True"},
    modifies=[],
    assumed=True,
    note="parsing reads the configuration and does not change it (parser purity is C05)",
).defaults = {"lenient": None}

LEN = "arg_result._command._config._lenient_args_parsing"
R.contract(
    M_HELP + ":HelpResolver.create_resolved_command",
    params={"result": "ref ResolveResult"},
    returns="ref ResolvedCommand",
    ensures=["%s is old(%s) or %s == old(%s)" % (LEN, LEN, LEN, LEN)],
    raises={"Exception": "True"},
    ensures_on_raise={"Exception": ["%s is old(%s) or %s == old(%s)" % (LEN, LEN, LEN, LEN)]},
    modifies=[LEN.replace("arg_result", "result")],
    note="temporary leniency is restored on every exit, normal or exceptional",
)

# ---------------------------------------------------------------- leading-token extraction (C03)
R.spec_fn("plain_token", [("t", "str")], "len(t) > 0 and t != '--' and not t.startswith('-')", "bool")
GAT = M_DEF + ":DefaultResolver.get_arguments_to_test"
R.local_kinds = getattr(R, "local_kinds", {})
R.local_kinds[GAT] = {"arguments_to_test": "list[str]"}
T = "iter_seq(tokens)"
P0 = "old(iter_pos(tokens))"
R.contract(
    GAT,
    params={"tokens": "iter[str]"},
    returns="list[str]",
    ensures=[
        # the result is the longest prefix of the remaining tokens made of plain (non-empty, non-option, non '--') tokens
        "0 <= %s and %s <= len(%s) - len(result)" % (P0, P0, T),
        "seq(result) == %s[%s:%s + len(result)]" % (T, P0, P0),
        "all(plain_token(t) for t in result)",
        "0 <= %s and %s + len(result) <= len(%s) and "
        "(%s + len(result) == len(%s) or not plain_token(%s[%s + len(result)]))" % (P0, P0, T, P0, T, T, P0),
        # the iterator stands just after the first token that is not part of the result
        "iter_pos(tokens) == (%s + len(result) + 1 if %s + len(result) < len(%s) else len(%s))" % (P0, P0, T, T),
        "iter_seq(tokens) == old(iter_seq(tokens))",
    ],
    modifies=["ITER(tokens)"],
)
R.loop(
    GAT, 0,
    invariants=[
        "iter_seq(tokens) == old(iter_seq(tokens))",
        "all(plain_token(t) for t in arguments_to_test)",
        "0 <= %s and %s <= iter_pos(tokens) and iter_pos(tokens) <= len(%s) and "
        "implies(token is None, iter_pos(tokens) == len(%s) and seq(arguments_to_test) == %s[%s:len(%s)]) and "
        "implies(token is not None, iter_pos(tokens) >= %s + 1 and token == %s[iter_pos(tokens) - 1] and "
        "seq(arguments_to_test) == %s[%s:iter_pos(tokens) - 1])" % (P0, P0, T, T, T, P0, T, P0, T, T, P0),
    ],
    decreases="len(%s) - iter_pos(tokens) + (0 if token is None else 1)" % T,
    modifies=["items(arguments_to_test)", "ITER(tokens)"],
    var_kinds={"token": "str?"},
    fingerprint="token",
)
