"""Contracts on the resolvers (C03, C17)."""
from pyvc.contracts import REG as R
from . import app_contracts as ac  # noqa: F401

M_HELP = "clikit.resolver.help_resolver"
M_DEF = "clikit.resolver.default_resolver"
M_RES = "clikit.resolver.resolve_result"
M_CMD = "clikit.api.command.command"

R.shape("CommandConfig", _lenient_args_parsing="bool?")
R.shape("Command", _config="ref CommandConfig", g_status=ac.STATUS, g_handler_calls="int", g_interrupted="bool")
R.shape("ResolveResult", _command="ref Command", _raw_args="ref RawArgs", _parsed_args="ref Args?",
        _parse_error="none|exc CannotParseArgsException", _parsed="bool")
R.shape("HelpResolver", _help_command_name="str")
R.shape("DefaultResolver")

R.contract(
    M_CMD + ":Command.parse",
    params={"args": "ref RawArgs", "lenient": "bool?"},
    returns="ref Args",
    raises={"Exception": "True"},
    modifies=[],
    assumed=True,
    note="parsing reads the configuration and does not change it (parser purity is C05)",
).defaults = {"lenient": None}

LEN = "arg_result._command._config._lenient_args_parsing"
R.contract(
    M_HELP + ":HelpResolver.create_resolved_command",
    params={"result": "ref ResolveResult"},
    returns="ref ResolvedCommand",
    ensures=["%s is old(%s) or %s == old(%s)" % (LEN, LEN, LEN, LEN)],
    raises={"Exception": "True"},
    ensures_on_raise={"Exception": ["%s is old(%s) or %s == old(%s)" % (LEN, LEN, LEN, LEN)]},
    modifies=[LEN.replace("arg_result", "result")],
    note="temporary leniency is restored on every exit, normal or exceptional",
)
