"""Contracts on the style adapter (C11) and on the table width arithmetic (C14)."""
from pyvc.contracts import REG as R

M_SC = "clikit.adapter.style_converter"
M_TBL = "clikit.ui.components.table"

R.shape("Style", _tag="str?", _fg_color="str?", _bg_color="str?", _bold="bool", _underlined="bool", _italic="bool",
        _dark="bool", _blinking="bool", _inverse="bool", _hidden="bool")
R.shape("PastelStyle", external=True, g_fg="str?", g_bg="str?", g_options="seq[str]")
R.contract("pastel.style:PastelStyle.__init__", params={"foreground": "str?", "background": "str?", "options": "list[str]"},
           ensures=["(self.g_fg is None) == (foreground is None) and (foreground is None or self.g_fg == foreground)",
                    "(self.g_bg is None) == (background is None) and (background is None or self.g_bg == background)",
                    "self.g_options == seq(options)"],
           modifies=["self.g_fg", "self.g_bg", "self.g_options"], assumed=True,
           note="pastel.Style(foreground, background, options) stores its arguments (the SGR table is bounded: C11.B.style_codes)")
R.local_kinds = getattr(R, "local_kinds", {})
R.local_kinds[M_SC + ":StyleConverter.convert"] = {"options": "list[str]"}
# the attribute names in the fixed order of the converter, each present iff the attribute is set
def _opt(name, field):
    return "(seq(['%s']) if style.%s else seq([]))" % (name, field)


OPTS = " + ".join(_opt(n, f) for n, f in (("bold", "_bold"), ("italic", "_italic"), ("dark", "_dark"), ("underline", "_underlined"),
                                         ("blink", "_blinking"), ("reverse", "_inverse"), ("conceal", "_hidden")))
c = R.contract(
    M_SC + ":StyleConverter.convert",
    params={"cls": "none", "style": "ref Style"},
    returns="ref PastelStyle",
    ensures=[
        "result.g_options == " + OPTS,
        "(result.g_fg is None) == (style._fg_color is None) and (style._fg_color is None or result.g_fg == style._fg_color)",
        "(result.g_bg is None) == (style._bg_color is None) and (style._bg_color is None or result.g_bg == style._bg_color)",
    ],
    modifies=[],
)
c.static = True

# ---------------------------------------------------------------- C14: width available to the cells
R.shape("BorderStyle", line_vl_char="str", line_vc_char="str", line_vr_char="str")
R.shape("TableStyle", border_style="ref BorderStyle", header_cell_format="str", cell_format="str")
R.shape("CellWrapper", external=True, g_max_total_width="int", g_nb_columns="int")
R.shape("Table", _header_row="list[str]", _rows="list[list[str]]", _nb_columns="int?", _style="ref TableStyle")
R.contract("clikit.ui.components.cell_wrapper:CellWrapper.__init__", params={}, assumed=True)
R.contract("clikit.ui.components.cell_wrapper:CellWrapper.add_cell", params={"cell": "str"}, returns="ref CellWrapper",
           assumed=True, note="collects the cell text in the wrapper; touches nothing of the table")
R.contract("clikit.ui.components.cell_wrapper:CellWrapper.fit",
           params={"max_total_width": "int", "nb_columns": "int", "formatter": "ref Formatter"},
           ensures=["self.g_max_total_width == max_total_width", "self.g_nb_columns == nb_columns"],
           modifies=["self.g_max_total_width", "self.g_nb_columns"], assumed=True,
           note="fits the collected cells into max_total_width (distribution: bounded tier)")
GCW = M_TBL + ":Table._get_cell_wrapper"
R.contract(
    GCW,
    params={"formatter": "ref Formatter", "screen_width": "int", "excess_column_width": "int", "indentation": "int"},
    returns="ref CellWrapper",
    requires=["self._nb_columns is not None"],
    ensures=[
        # the cells get what the terminal leaves after indentation, the vertical border characters (left, n-1 inner,
        # right) and the per-column excess of the cell format
        "result.g_max_total_width == screen_width - indentation - (len(self._style.border_style.line_vl_char) + "
        "(self._nb_columns - 1) * len(self._style.border_style.line_vc_char) + len(self._style.border_style.line_vr_char)) "
        "- self._nb_columns * excess_column_width",
        "result.g_nb_columns == self._nb_columns",
        "fresh(result)",
    ],
    modifies=[],   # rendering preparation does not touch the table
)
R.loop(GCW, 0, invariants=["True"], modifies=[], fingerprint="header_cell in self._header_row")
R.loop(GCW, 1, invariants=["True"], modifies=[], fingerprint="row in self._rows")
R.loop(GCW, 2, invariants=["True"], modifies=[], fingerprint="cell in row")


def _ext_hook(E, st, full, args, kwargs):
    """external constructors used by the code under contract"""
    if full == "pastel.style.Style":
        from pyvc.calls import apply_contract
        from pyvc.state import Out
        s2, obj = E.new_object(st, "PastelStyle")
        outs = apply_contract(E, s2, R.contracts["pastel.style:PastelStyle.__init__"], obj, args, kwargs)
        return [Out("ok", o.st, obj) if o.tag == "ok" else o for o in outs]
    return None


R.ext_hook = _ext_hook

# ---------------------------------------------------------------- C11 / C17: a style passed for one call does not stay
# AnsiFormatter.format(string, style) pushes the converted style on pastel's style stack for the duration of the call.
# Ghost model of the external stack: its depth.  The contract: the depth after a normal return is the depth before --
# whatever was pushed for this call has been popped, so the next format() of anything renders as if this call had not
# happened (with C17: rendering twice gives the same output; with C11: the per-call style affects that call only).
M_ANSI = "clikit.formatter.ansi_formatter"
R.shape("PastelStack", external=True, g_depth="int")
R.shape("PastelRegex", external=True)
R.shape("PastelMatch", external=True)
R.shape("Pastel", external=True, _style_stack="ref PastelStack", FULL_TAG_REGEX="ref PastelRegex")
R.shape("AnsiFormatter", base="Formatter", _formatter="ref Pastel", _forced="bool")
R.contract("pastel.stack:PastelStack.push", params={"style": "ref PastelStyle"},
           ensures=["self.g_depth == old(self.g_depth) + 1"], modifies=["self.g_depth"], assumed=True,
           note="pastel.stack.StyleStack.push appends one style")
R.contract("pastel.stack:PastelStack.pop", params={}, returns="ref PastelStyle",
           ensures=["self.g_depth == old(self.g_depth) - 1"], modifies=["self.g_depth"], assumed=True,
           note="pastel.stack.StyleStack.pop() without argument removes the top style")
R.contract("pastel.pastel:PastelRegex.search", params={"string": "str"}, returns="none|ref PastelMatch", modifies=[],
           assumed=True, note="re.Pattern.search: a match object or None, no side effect")
R.contract("pastel.pastel:Pastel.colorize", params={"message": "str"}, returns="str", raises={"ValueError": "True"},
           modifies=[], assumed=True,
           note="pastel's colorize pushes and pops its own tags in pairs and leaves the stack as it found it; it raises "
                "ValueError for badly nested tags")
R.contract("pastel.pastel:Pastel._apply_current_style", params={"text": "str"}, returns="str", modifies=[], assumed=True,
           note="reads the top of the style stack")
ANSI_FORMAT = M_ANSI + ":AnsiFormatter.format"
DEPTH = "self._formatter._style_stack.g_depth"
c = R.contract(
    ANSI_FORMAT, variant="stack",
    params={"string": "str", "style": "ref Style?"},
    returns="str",
    ensures=["%s == old(%s)" % (DEPTH, DEPTH)],
    raises={"ValueError": "True"},
    modifies=[DEPTH],
    note="(on ValueError -- badly nested tags in the text -- the style pushed for the call is not popped by the current "
         "code either; the property speaks of successful renderings)",
)
c.defaults = {"style": None}
ANSI_FORMAT_STACK = {"qual": ANSI_FORMAT, "tag": "stack"}
R.abstractions = getattr(R, "abstractions", {})
R.abstractions.setdefault(ANSI_FORMAT, []).append(
    ("self._ESCAPE_BEFORE_CODES.sub(*", "str",
     "post-processing of the decorated text by a compiled pattern (re, external): a string computed from the decorated "
     "text only - no effect on the style stack; what it removes is checked by C11.B.renderings"))

# ---------------------------------------------------------------- C11: a style added later takes effect, also under a known tag
# Ghost model of pastel's style table: per tag, the foreground / background / options last registered.
R.shape("Pastel", external=True, g_fg="dict[str,str?]", g_bg="dict[str,str?]", g_opts="dict[str,seq[str]]")
R.contract("pastel.pastel:Pastel.add_style",
           params={"name": "str", "fg": "str?", "bg": "str?", "options": "seq[str]"},
           ensures=["name in self.g_fg and name in self.g_bg and name in self.g_opts",
                    "(self.g_fg[name] is None) == (fg is None) and (fg is None or self.g_fg[name] == fg)",
                    "(self.g_bg[name] is None) == (bg is None) and (bg is None or self.g_bg[name] == bg)",
                    "self.g_opts[name] == options"],
           modifies=["items(self.g_fg)", "items(self.g_bg)", "items(self.g_opts)"], assumed=True,
           note="pastel's add_style(name, fg, bg, options) (re)defines the style of that tag")
R.contract("pastel.pastel:Pastel.has_style", params={"name": "str"}, returns="bool", ensures=["result == (name in self.g_fg)"],
           modifies=[], assumed=True)
for _p, _g in (("foreground", "g_fg"), ("background", "g_bg")):
    R.contract("pastel.style:PastelStyle." + _p, params={}, returns="str?",
               ensures=["(result is None) == (self.%s is None)" % _g, "result is None or result == self.%s" % _g],
               modifies=[], assumed=True).is_property = True
R.contract("pastel.style:PastelStyle.options", params={}, returns="seq[str]", ensures=["result == self.g_options"], modifies=[],
           assumed=True).is_property = True
ADD_STYLE = M_ANSI + ":AnsiFormatter.add_style"
T_ = "style._tag"
R.contract(
    ADD_STYLE, params={"style": "ref Style"},
    requires=["style._tag is not None"],
    ensures=[
        # whatever the formatter knew under that tag before, it now renders the colours and attributes of THIS style
        "%s in self._formatter.g_fg" % T_,
        "(self._formatter.g_fg[%s] is None) == (style._fg_color is None) and (style._fg_color is None or self._formatter.g_fg[%s] == style._fg_color)" % (T_, T_),
        "(self._formatter.g_bg[%s] is None) == (style._bg_color is None) and (style._bg_color is None or self._formatter.g_bg[%s] == style._bg_color)" % (T_, T_),
        "self._formatter.g_opts[%s] == %s" % (T_, OPTS),
    ],
    modifies=["items(self._formatter.g_fg)", "items(self._formatter.g_bg)", "items(self._formatter.g_opts)"],
)
R.contract("clikit.api.formatter.style:Style.tag", params={}, returns="str?", ensures=["(result is None) == (self._tag is None)",
           "result is None or result == self._tag"], modifies=[]).is_property = True
