"""C17 (third sentence): "creating or customising one style object never changes how a table built with another
renders" -- the style factories hand out objects nobody else holds.

BorderStyle.none/ascii/solid keep one prototype per kind in a class variable and return a copy; TableStyle.borderless/
compact/ascii/solid build a new TableStyle around such a copy and customise it.  Contracts:

  * every factory returns a FRESH object (and the table-style factories a fresh border style and a fresh, empty
    alignment list inside it), whose fields have the documented values -- so two results share no mutable state;
  * the prototype cache is encapsulated: a factory stores only an object it has just created (or leaves the cache
    alone), never returns it, and changes nothing else (frame), in particular no field of an existing prototype;
  * class invariant PROTO (a precondition and a postcondition of every factory): each cached prototype is absent or has
    exactly the canonical field values.  It holds initially (the class body sets the three variables to None), is
    preserved by the factories (proved here), and cannot be broken from outside because no reference to a prototype ever
    leaves the factories (fresh results, frame) and only the factories assign the class variables (structural
    obligation `only_factories_assign_prototypes`, an AST scan of the whole package).
"""
import ast
import os

from pyvc.contracts import REG as R
from . import style_contracts as sc  # noqa: F401  (Style, Table shapes)

M_BS = "clikit.ui.style.border_style"
M_TS = "clikit.ui.style.table_style"

CHARS = ["line_ht_char", "line_hc_char", "line_hb_char", "line_vl_char", "line_vc_char", "line_vr_char",
         "corner_tl_char", "corner_tr_char", "corner_bl_char", "corner_br_char",
         "crossing_c_char", "crossing_l_char", "crossing_t_char", "crossing_r_char", "crossing_b_char"]

R.shape("BorderStyle", style="ref Style?", **{c: "str" for c in CHARS})
R.shape("BorderStyle$cls", final=True, _none="ref BorderStyle?", _ascii="ref BorderStyle?", _solid="ref BorderStyle?")
R.shape("TableStyle", padding_char="str", header_cell_format="str", cell_format="str", column_alignments="list[int]",
        default_column_alignment="int", border_style="ref BorderStyle?", header_cell_style="ref Style?",
        cell_style="ref Style?")

NONE = dict.fromkeys(CHARS, "")
NONE["line_vc_char"] = " "
ASCII = {"line_ht_char": "-", "line_hc_char": "-", "line_hb_char": "-", "line_vl_char": "|", "line_vc_char": "|",
         "line_vr_char": "|", "corner_tl_char": "+", "corner_tr_char": "+", "corner_bl_char": "+", "corner_br_char": "+",
         "crossing_c_char": "+", "crossing_l_char": "+", "crossing_t_char": "+", "crossing_r_char": "+",
         "crossing_b_char": "+"}
SOLID = {"line_ht_char": "─", "line_hc_char": "─", "line_hb_char": "─", "line_vl_char": "│",
         "line_vc_char": "│", "line_vr_char": "│", "corner_tl_char": "┌", "corner_tr_char": "┐",
         "corner_bl_char": "└", "corner_br_char": "┘", "crossing_c_char": "┼", "crossing_l_char": "├",
         "crossing_r_char": "┤", "crossing_t_char": "┬", "crossing_b_char": "┴"}
TABLES = {"none": NONE, "ascii": ASCII, "solid": SOLID}


def has(x, table, **override):
    t = dict(table)
    t.update(override)
    return " and ".join("%s.%s == %r" % (x, c, t[c]) for c in CHARS) + " and %s.style is None" % x


def proto(kind):
    v = "BorderStyle._%s" % kind
    return "(%s is None or (%s))" % (v, has(v, TABLES[kind]))


PROTO = [proto(k) for k in ("none", "ascii", "solid")]

BS_FACTORIES = {}
for kind in ("none", "ascii", "solid"):
    v = "BorderStyle._%s" % kind
    q = "%s:BorderStyle.%s" % (M_BS, kind)
    BS_FACTORIES[kind] = q
    R.contract(
        q, params={}, returns="ref BorderStyle",
        requires=list(PROTO),
        ensures=[
            "fresh(result)",
            has("result", TABLES[kind]),
            # the cache: untouched, or a prototype created by this very call; never the object handed out
            "%s is not None and %s is not result" % (v, v),
            "%s is old(%s) or (old(%s) is None and fresh(%s))" % (v, v, v, v),
        ] + PROTO,
        modifies=[v],
    )

TS_FACTORIES = {}
for name, table, override, fmt in (
    ("borderless", NONE, {"line_hc_char": "=", "line_vc_char": " ", "crossing_c_char": " "}, "{}"),
    ("compact", NONE, {"line_hc_char": "", "line_vc_char": " ", "crossing_c_char": ""}, "{}"),
    ("ascii", ASCII, {}, " {} "),
    ("solid", SOLID, {}, " {} "),
):
    q = "%s:TableStyle.%s" % (M_TS, name)
    TS_FACTORIES[name] = q
    R.contract(
        q, params={}, returns="ref TableStyle",
        requires=list(PROTO),
        ensures=[
            "fresh(result)",
            "result.border_style is not None and fresh(result.border_style)",
            has("result.border_style", table, **override),
            "fresh(result.column_alignments) and len(result.column_alignments) == 0",
            "result.header_cell_format == %r and result.cell_format == %r and result.padding_char == ' '" % (fmt, fmt),
            "result.default_column_alignment == 0 and result.header_cell_style is None and result.cell_style is None",
            # the prototypes keep their canonical values: customising the result did not reach them
        ] + PROTO,
        modifies=["BorderStyle._none", "BorderStyle._ascii", "BorderStyle._solid"],
    )

TARGETS = list(BS_FACTORIES.values()) + list(TS_FACTORIES.values())


def structural(prop="C17"):
    """only the three BorderStyle factories assign the prototype class variables (AST scan of the whole package)"""
    from pyvc import frontend
    program = frontend.Program()
    bad = []
    n = 0
    for dirpath, _dirs, files in os.walk(program.src):
        for f in files:
            if not f.endswith(".py"):
                continue
            path = os.path.join(dirpath, f)
            try:
                tree = ast.parse(open(path, encoding="utf-8").read())
            except SyntaxError as e:
                bad.append("%s: %s" % (path, e))
                continue
            n += 1
            in_bs = path.endswith(os.path.join("ui", "style", "border_style.py"))
            for node in ast.walk(tree):
                tgts = []
                if isinstance(node, ast.Assign):
                    tgts = node.targets
                elif isinstance(node, (ast.AugAssign, ast.AnnAssign)):
                    tgts = [node.target]
                elif isinstance(node, ast.Delete):
                    tgts = node.targets
                elif isinstance(node, ast.Call) and isinstance(node.func, ast.Name) and node.func.id in ("setattr", "delattr"):
                    if len(node.args) >= 2 and isinstance(node.args[1], ast.Constant) and node.args[1].value in ("_none", "_ascii", "_solid"):
                        bad.append("%s:%d %s(..., %r)" % (path, node.lineno, node.func.id, node.args[1].value))
                for t in tgts:
                    for a in ast.walk(t):
                        if isinstance(a, ast.Attribute) and a.attr in ("_none", "_ascii", "_solid"):
                            owner = a.value.id if isinstance(a.value, ast.Name) else None
                            if not (in_bs and owner == "cls"):
                                bad.append("%s:%d assigns %s.%s" % (path, node.lineno, owner or "<expr>", a.attr))
    # inside border_style.py the assignments through `cls` must sit in the factory of the same name
    mi = program.module(M_BS)
    ci = mi.classes.get("BorderStyle")
    if ci is None:
        bad.append("class BorderStyle missing")
    else:
        for mname, fn in ci.methods.items():
            for node in ast.walk(fn):
                if isinstance(node, ast.Assign):
                    for t in node.targets:
                        if isinstance(t, ast.Attribute) and t.attr in ("_none", "_ascii", "_solid") and t.attr != "_" + mname:
                            bad.append("BorderStyle.%s assigns cls.%s" % (mname, t.attr))
    return [{
        "name": "%s.BorderStyle.frame.only_factories_assign_prototypes" % prop, "kind": "frame",
        "text": "in the whole package the class variables _none / _ascii / _solid are assigned only through `cls` inside "
                "BorderStyle.none / ascii / solid respectively (no setattr/delattr, no assignment from another module)",
        "status": "proved" if not bad else "failed",
        "note": "; ".join(bad[:6]) if bad else "%d modules scanned" % n,
    }]
