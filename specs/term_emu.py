"""A small terminal emulator (trusted screen model of DESIGN.md section 4 item 7).

Used by the bounded tiers of C15, C16 and C19 to interpret the byte stream the
real code emits.  Model:

* a screen of `width` columns and unboundedly many rows (no scrolling: cursor-up
  is only clipped at the first row ever written);
* printable characters are put at the cursor and advance it; **auto-wrap with
  deferred wrap** as on xterm/VT100: a character written in the last column
  leaves the cursor there with a pending-wrap flag, the next printable character
  first moves to column 0 of the next row (so a line of exactly `width`
  characters followed by "\n" occupies one row);
* "\n" = next row, column 0 (tty output processing ONLCR); "\r" = column 0;
  "\b" = one column left; "\t" = next multiple of 8;
* CSI sequences: `ESC[nA` up, `ESC[nB` down, `ESC[nC` right, `ESC[nD` left,
  `ESC[G` column, `ESC[0J`/`ESC[J` erase cursor..end of screen, `ESC[1J`,
  `ESC[2J`, `ESC[K`/`ESC[0K` erase cursor..end of line, `ESC[1K`, `ESC[2K` erase
  line, `ESC[...m` (SGR) ignored; anything else is recorded in `.unknown`.
"""
import re

_CSI = re.compile(r"\x1b\[([0-9;?]*)([@-~])")
SGR = re.compile(r"\x1b\[[0-9;]*m")


def strip_sgr(text):
    return SGR.sub("", text)


class Term(object):
    def __init__(self, width):
        if width < 1:
            raise ValueError("width must be >= 1")
        self.width = width
        self.grid = [[]]          # rows of lists of single characters
        self.row = 0
        self.col = 0
        self.pending = False      # deferred wrap
        self.unknown = []

    # -- helpers
    def _line(self, r):
        while len(self.grid) <= r:
            self.grid.append([])
        return self.grid[r]

    def _put(self, ch):
        if self.pending:
            self.row += 1
            self.col = 0
            self.pending = False
        line = self._line(self.row)
        while len(line) <= self.col:
            line.append(" ")
        line[self.col] = ch
        if self.col == self.width - 1:
            self.pending = True
        else:
            self.col += 1

    def _csi(self, params, final):
        first = params.split(";")[0] if params else ""
        n = int(first) if first.isdigit() else None
        if final == "m":
            return
        self.pending = False
        if final == "A":
            self.row = max(0, self.row - (n or 1))
        elif final == "B":
            self.row += n or 1
            self._line(self.row)
        elif final == "C":
            self.col = min(self.width - 1, self.col + (n or 1))
        elif final == "D":
            self.col = max(0, self.col - (n or 1))
        elif final == "G":
            self.col = min(self.width - 1, max(0, (n or 1) - 1))
        elif final == "J":
            mode = n or 0
            if mode == 0:
                del self._line(self.row)[self.col:]
                del self.grid[self.row + 1:]
            elif mode == 1:
                for r in range(self.row):
                    self.grid[r] = []
                line = self._line(self.row)
                for c in range(min(self.col + 1, len(line))):
                    line[c] = " "
            elif mode == 2:
                self.grid = [[] for _ in self.grid]
            else:
                self.unknown.append("\x1b[" + params + final)
        elif final == "K":
            mode = n or 0
            line = self._line(self.row)
            if mode == 0:
                del line[self.col:]
            elif mode == 1:
                for c in range(min(self.col + 1, len(line))):
                    line[c] = " "
            elif mode == 2:
                del line[:]
            else:
                self.unknown.append("\x1b[" + params + final)
        else:
            self.unknown.append("\x1b[" + params + final)

    # -- API
    def feed(self, text):
        i, n = 0, len(text)
        while i < n:
            ch = text[i]
            if ch == "\x1b":
                m = _CSI.match(text, i)
                if m:
                    self._csi(m.group(1), m.group(2))
                    i = m.end()
                else:
                    self.unknown.append(text[i:i + 2])
                    i += 2
                continue
            i += 1
            if ch == "\n":
                self.row += 1
                self.col = 0
                self.pending = False
                self._line(self.row)
            elif ch == "\r":
                self.col = 0
                self.pending = False
            elif ch == "\b":
                self.col = max(0, self.col - 1)
                self.pending = False
            elif ch == "\t":
                self.col = min(self.width - 1, (self.col // 8 + 1) * 8)
                self.pending = False
            elif ch < " " or ch == "\x7f":
                self.unknown.append(ch)
            else:
                self._put(ch)
        return self

    def rows(self, trim=True):
        """screen rows as strings; with trim: right-trimmed and without trailing empty rows"""
        out = ["".join(r) for r in self.grid]
        if trim:
            out = [r.rstrip(" ") for r in out]
            while out and out[-1] == "":
                out.pop()
        return out

    def current_line(self):
        return "".join(self._line(self.row)).rstrip(" ")

    @property
    def cursor(self):
        return (self.row, self.col)


def screen(text, width):
    """rows shown after `text` has been sent to an empty terminal of the given width"""
    return Term(width).feed(text).rows()


def wrap_rows(line, width):
    """the rows a logical line occupies on a terminal of that width (an empty line takes one row)"""
    if line == "":
        return [""]
    return [line[i:i + width] for i in range(0, len(line), width)]


if __name__ == "__main__":
    # unit tests of the model
    assert screen("abc\ndef\n", 10) == ["abc", "def"]
    assert screen("abcdefghij\nX", 10) == ["abcdefghij", "X"], "deferred wrap: exactly width + newline is one row"
    assert screen("abcdefghijk\nX", 10) == ["abcdefghij", "k", "X"]
    assert screen("a" * 25, 10) == ["a" * 10, "a" * 10, "a" * 5]
    assert screen("hello\rJ", 10) == ["Jello"]
    assert screen("abcdefghij\rX", 10) == ["Xbcdefghij"], "CR cancels the pending wrap"
    assert screen("one\ntwo\nthree\n\x1b[2A\x1b[0J", 10) == ["one"]
    assert screen("one\ntwo\nthree\n\x1b[2A\x1b[0Jx\n", 10) == ["one", "x"]
    assert screen("one\ntwo\x1b[1A", 10) == ["one", "two"]
    t = Term(10).feed("one\ntwo\x1b[1A")
    assert t.cursor == (0, 3)
    assert Term(10).feed("a\x1b[5A").cursor == (0, 1), "cursor-up clipped at the top"
    assert screen("hello world\r\x1b[2Kbye", 20) == ["bye"]
    assert screen("hello world\rbye", 20) == ["byelo world"], "no erase: residue stays"
    assert screen("hello\x1b[3D\x1b[K", 20) == ["he"]
    assert screen("hello\x1b[3D\x1b[0K!", 20) == ["he!"]
    assert screen("hello\x1b[2D\x1b[1K", 20) == ["    o"]
    assert screen("\x1b[32mgreen\x1b[0m \x1b[1;31mred\x1b[39;22m", 20) == ["green red"]
    assert screen("a\tb", 20) == ["a       b"]
    assert screen("ab\bc", 20) == ["ac"]
    assert screen("x\n\n\ny", 5) == ["x", "", "", "y"]
    assert screen("abc\x1b[2Jd", 5) == ["   d"]
    assert screen("ab\ncd\x1b[1J", 5) == ["", ""] or screen("ab\ncd\x1b[1J", 5) == []
    t = Term(5).feed("abc\x1b[Zd\x07")
    assert t.unknown == ["\x1b[Z", "\x07"], t.unknown
    assert t.rows() == ["abcd"]
    t = Term(4).feed("abcd")
    assert t.cursor == (0, 3) and t.pending
    t.feed("\n")
    assert t.cursor == (1, 0) and not t.pending
    t = Term(4).feed("abcd\x1b[1A")
    assert not t.pending
    assert screen("abcd\x1b[1Dx", 4) == ["abxd"]
    assert wrap_rows("", 5) == [""] and wrap_rows("abcdef", 5) == ["abcde", "f"] and wrap_rows("abcde", 5) == ["abcde"]
    assert strip_sgr("\x1b[1mX\x1b[0m") == "X"
    # frames: "\r" + frame padded to the previous length leaves exactly the latest frame
    assert screen("\r" + "x" * 30 + "\r" + "ab".ljust(30), 80) == ["ab"]
    assert Term(80).feed("row\n\x1b[1A\x1b[0Jnew\n").rows() == ["new"]
    print("term_emu: all unit tests passed")
