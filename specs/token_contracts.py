"""Contracts on the command-string tokenizer (C08)."""
from pyvc.contracts import REG as R

M_TOK = "clikit.args.token_parser"
TP = M_TOK + ":TokenParser."

R.shape("TokenParser", _string="str", _cursor="int", _current="str?", _next_="str?")

# representation invariant of the scanner
R.spec_fn(
    "scan",
    [("p", "ref TokenParser")],
    "0 <= p._cursor and p._cursor <= len(p._string) and "
    "((p._current is None) == (p._cursor >= len(p._string))) and "
    "(p._current is None or p._current == p._string[p._cursor]) and "
    "((p._next_ is None) == (p._cursor + 1 >= len(p._string))) and "
    "(p._next_ is None or p._next_ == p._string[p._cursor + 1])",
    "bool",
)
FIELDS = ["self._cursor", "self._current", "self._next_"]
SAME_STRING = "self._string == old(self._string)"
MEASURE = "len(self._string) - self._cursor"

R.contract(
    TP + "_next",
    params={},
    requires=["scan(self)"],
    ensures=["scan(self)", SAME_STRING,
             "self._cursor == old(self._cursor) + (0 if old(self._current) is None else 1)"],
    modifies=FIELDS,
)
R.contract(
    TP + "_parse_escape_sequence",
    params={},
    returns="str",
    requires=["scan(self)", "self._current is not None"],
    ensures=["scan(self)", SAME_STRING, "self._cursor > old(self._cursor)"],
    modifies=FIELDS,
)
R.contract(
    TP + "_parse_quoted_string",
    params={},
    returns="str",
    requires=["scan(self)", "self._current is not None"],
    ensures=["scan(self)", SAME_STRING, "self._cursor > old(self._cursor)"],
    modifies=FIELDS,
    decreases=MEASURE,
    group="tokenizer",
)
R.loop(
    TP + "_parse_quoted_string", 0,
    invariants=["scan(self)", SAME_STRING, "self._cursor > old(self._cursor)"],
    decreases=MEASURE,
    modifies=FIELDS,
    fingerprint="self._is_valid()",
)
R.contract(
    TP + "_parse_token",
    params={},
    returns="str",
    requires=["scan(self)", "self._current is not None"],
    ensures=["scan(self)", SAME_STRING, "self._cursor > old(self._cursor)"],
    modifies=FIELDS,
)
R.loop(
    TP + "_parse_token", 0,
    invariants=["scan(self)", SAME_STRING,
                "self._cursor > old(self._cursor) or (self._current is not None and self._cursor == old(self._cursor))"],
    decreases=MEASURE,
    modifies=FIELDS,
    fingerprint="self._is_valid()",
)
R.local_kinds = getattr(R, "local_kinds", {})
R.local_kinds[TP + "_parse"] = {"tokens": "list[str]"}
R.contract(
    TP + "_parse",
    params={},
    returns="list[str]",
    requires=["scan(self)"],
    ensures=["scan(self)", "self._current is None"],
    modifies=FIELDS,
)
R.loop(
    TP + "_parse", 0,
    invariants=["scan(self)", SAME_STRING],
    decreases=MEASURE,
    modifies=FIELDS + ["items(tokens)"],
    fingerprint="self._is_valid()",
)
R.contract(
    TP + "parse",
    params={"string": "str"},
    returns="list[str]",
    ensures=["True"],
    modifies=FIELDS + ["self._string"],
    note="totality: no exception for any string (raises = {}), termination by the measures of the loops",
)

# ---------------------------------------------------------------- raw args: option tokens = tokens before the first "--"
M_ARGV = "clikit.args.argv_args"
M_SARGS = "clikit.args.string_args"
R.shape("RawArgs", external=True)
R.shape("ArgvArgs", base="RawArgs", _script_name="str", _tokens="list[str]", _option_tokens="list[str]")
R.shape("StringArgs", base="RawArgs", _tokens="list[str]", _option_tokens="list[str]")

R.spec_fn(
    "before_dd",
    [("o", "list[str]"), ("t", "list[str]")],
    "is_prefix(o, t) and ('--' not in o) and (len(o) == len(t) or t[len(o)] == '--')",
    "bool",
)
R.contract(
    M_ARGV + ":ArgvArgs.__init__",
    params={"argv": "list[str]"},
    requires=["len(argv) >= 1"],
    ensures=[
        "before_dd(self._option_tokens, self._tokens)",
        "self._script_name == old(seq(argv))[0]",
        "seq(self._tokens) == old(seq(argv))[1:]",
        # C05: the caller's list is neither emptied nor shared
        "seq(argv) == old(seq(argv))",
        # C05: the caller's list is left alone (the object works on its own copies)
        "fresh(self._tokens) and fresh(self._option_tokens)",
    ],
    modifies=["self._script_name", "self._tokens", "self._option_tokens"],
    note="argv=None (sys.argv) is outside the contract",
)
# the same for an argv without a script name: whatever the constructor does with it (today: IndexError), the caller's
# list is left alone
R.contract(
    M_ARGV + ":ArgvArgs.__init__", variant="empty",
    params={"argv": "list[str]"},
    requires=["len(argv) == 0"],
    ensures=["len(argv) == 0"],
    raises={"IndexError": "True"},
    ensures_on_raise={"IndexError": ["len(argv) == 0"]},
    modifies=["self._script_name", "self._tokens", "self._option_tokens"],
    note="an empty argv: the list of the caller stays empty",
).never_returns = True  # (today the constructor raises IndexError for it: no normal exit has to be reachable)
ARGV_EMPTY = {"qual": M_ARGV + ":ArgvArgs.__init__", "tag": "empty"}
R.contract(
    M_SARGS + ":StringArgs.__init__",
    params={"string": "str"},
    ensures=["before_dd(self._option_tokens, self._tokens)", "fresh(self._option_tokens)"],
    modifies=["self._tokens", "self._option_tokens"],
)
for mod, cls in ((M_ARGV, "ArgvArgs"), (M_SARGS, "StringArgs")):
    R.contract("%s:%s.has_option_token" % (mod, cls), params={"token": "str"}, returns="bool",
               ensures=["result == (token in self._option_tokens)"])
    R.contract("%s:%s.has_token" % (mod, cls), params={"token": "str"}, returns="bool",
               ensures=["result == (token in self._tokens)"])

# the two forms hand out their token lists in the same way: the list itself (the help resolver edits it in place and puts
# it back; a form that handed out a copy would be resolved differently)
for _mod, _cls in ((M_ARGV, "ArgvArgs"), (M_SARGS, "StringArgs")):
    R.contract("%s:%s.tokens" % (_mod, _cls), params={}, returns="list[str]", ensures=["result is self._tokens"],
               modifies=[]).is_property = True
    R.contract("%s:%s.option_tokens" % (_mod, _cls), params={}, returns="list[str]", ensures=["result is self._option_tokens"],
               modifies=[]).is_property = True
TOKEN_PROPS = ["%s:%s.%s" % (_m, _c, _p) for _m, _c in ((M_ARGV, "ArgvArgs"), (M_SARGS, "StringArgs")) for _p in ("tokens", "option_tokens")]
