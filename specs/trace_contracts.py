"""Contracts on the trace highlighter (C20): numbering and snippet slicing."""
from pyvc.contracts import REG as R

M_T = "clikit.ui.components.exception_trace"
H = M_T + ":Highlighter."

R.shape("Highlighter", _theme="dict[str,str]", _ui="dict[str,str]", g_numbered="seq[str]")
R.local_kinds = getattr(R, "local_kinds", {})
R.local_kinds[H + "line_numbers"] = {"snippet_lines": "list[str]"}

R.contract(H + "highlighted_lines", params={"source": "str"}, returns="list[str]", fresh_result=True, assumed=True,
           raises={"Exception": "True"},
           note="tokenizer-based highlighting (tokenize is external): one entry per source line; bounded tier checks it")
KEYS = ("'line_marker' in self._theme and 'line_number' in self._theme and 'arrow' in self._ui and 'delimiter' in self._ui")
R.contract(
    H + "line_numbers",
    params={"lines": "list[str]", "mark_line": "int"},
    returns="list[str]",
    requires=[KEYS],
    # the [def] clause names the result by a ghost field so that callers can state slices of it
    ensures=["len(result) == len(lines)", "fresh(result)", "[def] self.g_numbered == seq(result)"],
    modifies=["self.g_numbered"],
    note="one numbered entry per input line (the text of an entry is built with str.format: bounded tier)",
)
R.loop(H + "line_numbers", 0, invariants=["len(snippet_lines) == _i"], modifies=["items(snippet_lines)"], fingerprint="enumerate(lines)")

K = "(line - lines_before - 1 if line - lines_before - 1 > 0 else 0)"
R.contract(
    H + "code_snippet",
    params={"source": "str", "line": "int", "lines_before": "int", "lines_after": "int"},
    returns="list[str]",
    requires=[KEYS, "lines_before >= 0 and lines_after >= 0"],
    ensures=[
        # a contiguous run of at most before+after+1 numbered entries ...
        "seq(result) == self.g_numbered[%s:%s + lines_before + lines_after + 1]" % (K, K),
        "len(result) <= lines_before + lines_after + 1",
        # ... that contains the entry of the failing line whenever that line exists
        "implies(1 <= line and line <= len(self.g_numbered), %s <= line - 1 and line - 1 < %s + len(result))" % (K, K),
    ],
    raises={"Exception": "True"},
    modifies=["self.g_numbered"],
).defaults = {"lines_before": 2, "lines_after": 2}
