"""Contracts on the trace highlighter (C20): numbering and snippet slicing."""
from pyvc.contracts import REG as R

M_T = "clikit.ui.components.exception_trace"
H = M_T + ":Highlighter."

R.shape("Highlighter", _theme="dict[str,str]", _ui="dict[str,str]", g_numbered="seq[str]")
R.local_kinds = getattr(R, "local_kinds", {})
R.local_kinds[H + "line_numbers"] = {"snippet_lines": "list[str]"}

R.contract(H + "split_to_lines", params={"source": "str"}, returns="list[str]", fresh_result=True, assumed=True,
           raises={"TokenError": "True", "SyntaxError": "True", "IndentationError": "True", "TabError": "True"},
           modifies=[],
           note="tokenizer-based highlighting (tokenize is external): one entry per source line (bounded tier); what the "
                "tokenizer of the standard library raises on text that is not Python - tokenize.TokenError for an "
                "unterminated string or bracket, IndentationError / TabError (SyntaxError) for indentation it cannot follow")
R.contract(H + "highlighted_lines", params={"source": "str"}, returns="list[str]", fresh_result=True,
           # C20: highlighting never fails, whatever the text of the source file is
           raises={}, modifies=[],
           note="every error of the tokenizer ends in the plain-lines fallback")
KEYS = ("'line_marker' in self._theme and 'line_number' in self._theme and 'arrow' in self._ui and 'delimiter' in self._ui")
R.contract(
    H + "line_numbers",
    params={"lines": "list[str]", "mark_line": "int"},
    returns="list[str]",
    requires=[KEYS],
    # the [def] clause names the result by a ghost field so that callers can state slices of it
    ensures=["len(result) == len(lines)", "fresh(result)", "[def] self.g_numbered == seq(result)"],
    modifies=["self.g_numbered"],
    note="one numbered entry per input line (the text of an entry is built with str.format: bounded tier)",
)
R.loop(H + "line_numbers", 0, invariants=["len(snippet_lines) == _i"], modifies=["items(snippet_lines)"], fingerprint="enumerate(lines)")

K = "(line - lines_before - 1 if line - lines_before - 1 > 0 else 0)"
R.contract(
    H + "code_snippet",
    params={"source": "str", "line": "int", "lines_before": "int", "lines_after": "int"},
    returns="list[str]",
    requires=[KEYS, "lines_before >= 0 and lines_after >= 0"],
    ensures=[
        # a contiguous run of at most before+after+1 numbered entries ...
        "seq(result) == self.g_numbered[%s:%s + lines_before + lines_after + 1]" % (K, K),
        "len(result) <= lines_before + lines_after + 1",
        # ... that contains the entry of the failing line whenever that line exists
        "implies(1 <= line and line <= len(self.g_numbered), %s <= line - 1 and line - 1 < %s + len(result))" % (K, K),
    ],
    raises={},  # C20: building the snippet never fails, whatever the source text and the line number are
    modifies=["self.g_numbered"],
).defaults = {"lines_before": 2, "lines_after": 2}

# ---------------------------------------------------------------- C20: frames under an ignored path are left out unless debug
# Prefix contract of ExceptionTrace._render_trace: up to the end of its first loop (the filter), the collection handed to
# the listing code holds exactly the frames that are not ignored -- none whose file name matches the ignore pattern unless
# the verbosity is debug, and every other frame.  The listing itself (folding of repeated frames, snippets) is not
# verified under this contract: it is bounded (C20.B.ignore, C20.B.debug_frame_snippets).
from . import io_contracts as ioc  # noqa: E402,F401  (IO / Output shapes)

RT = M_T + ":ExceptionTrace._render_trace"
R.shape("TraceFrame", external=True, g_filename="str")
R.shape("FrameCollection", external=True, g_items="seq[ref TraceFrame]")
R.shape("ExceptionTrace", _ignore="str?")
R.uf("re_match", ["str", "str"], "bool")
R.contract("crashtest.frame:TraceFrame.filename", params={}, returns="str", ensures=["result == self.g_filename"],
           modifies=[], assumed=True, note="the file name of a crashtest frame").is_property = True
R.contract("crashtest.frame_collection:FrameCollection.__init__", params={}, ensures=["len(self.g_items) == 0"],
           modifies=["self.g_items"], assumed=True, note="an empty frame collection (a list subclass of crashtest)")
R.contract("crashtest.frame_collection:FrameCollection.append", params={"frame": "ref TraceFrame"},
           ensures=["self.g_items == old(self.g_items) + seq([frame])"], modifies=["self.g_items"], assumed=True,
           note="list.append")
# verbosity DEBUG of the standard output: both getters are verified (gate arithmetic: C10)
R.contract(ioc.M_OUT + ":Output.is_debug", params={}, returns="bool", ensures=["result == (self._verbosity == 4)"], modifies=[])
R.contract(ioc.M_IO + ":IO.is_debug", params={}, returns="bool", ensures=["result == (self._output._verbosity == 4)"],
           modifies=[])
IS_DEBUG_TARGETS = [ioc.M_OUT + ":Output.is_debug", ioc.M_IO + ":IO.is_debug"]
IGNORED = "(self._ignore is not None and len(self._ignore) > 0 and re_match(self._ignore, %s.g_filename) and io._output._verbosity != 4)"
R.contract(
    RT, variant="filter", cut_after_loop=0,
    params={"io": "ref IO", "frames": "list[ref TraceFrame]"},
    ensures=[
        # nothing under the ignored path is listed (unless debug) ...
        "all(not %s for x in values(stack_frames.g_items))" % (IGNORED % "x"),
        # ... only frames of the trace are, and every frame that is not ignored
        "all(x in frames for x in values(stack_frames.g_items))",
        "all(implies(not %s, frames[j] in stack_frames.g_items) for j in range(len(frames)))" % (IGNORED % "frames[j]"),
    ],
    raises={"Exception": "True"},
    modifies=[],
    note="prefix contract (cut point after the filter loop)",
)
R.local_kinds = getattr(R, "local_kinds", {})
R.loop(
    RT, 0,
    invariants=[
        "fresh(stack_frames)",
        "all(not %s for x in values(stack_frames.g_items))" % (IGNORED % "x"),
        "all(x in frames for x in values(stack_frames.g_items))",
        "all(implies(not %s, frames[j] in stack_frames.g_items) for j in range(_i))" % (IGNORED % "frames[j]"),
    ],
    modifies=["stack_frames.g_items"],
    fingerprint="frame in frames",
)


def _trace_ext_hook(E, st, full, args, kwargs):
    if full == "crashtest.frame_collection.FrameCollection":
        from pyvc.calls import apply_contract
        from pyvc.state import Out
        s2, obj = E.new_object(st, "FrameCollection")
        outs = apply_contract(E, s2, R.contracts["crashtest.frame_collection:FrameCollection.__init__"], obj, args, kwargs)
        return [Out("ok", o.st, obj) if o.tag == "ok" else o for o in outs]
    return None


RENDER_TRACE_FILTER = {"qual": RT, "tag": "filter"}
R.contract(ioc.M_IO + ":IO.is_very_verbose", params={}, returns="bool", ensures=["result == (self._output._verbosity >= 2)"],
           modifies=[], assumed=True)
R.contract(ioc.M_IO + ":IO.is_verbose", params={}, returns="bool", ensures=["result == (self._output._verbosity >= 1)"],
           modifies=[], assumed=True)
