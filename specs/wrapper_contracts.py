"""Contracts on the cell wrapper of tables (C14): after a column has been wrapped, no cell of it is wider than the column."""
from pyvc.contracts import REG as R
from . import style_contracts as sc  # noqa: F401  (CellWrapper shape)

M_CW = "clikit.ui.components.cell_wrapper"
R.shape("CellWrapper", external=True, _wrapped_rows="list[list[str]]", _cell_lengths="list[list[int]]", _column_lengths="list[int]")
RCL = M_CW + ":CellWrapper._refresh_column_length"
ROWS_OK = ("len(self._cell_lengths) == len(self._wrapped_rows) and "
           "all(0 <= col and col < len(self._cell_lengths[i]) for i in range(len(self._cell_lengths)))")
R.contract(
    RCL,
    params={"col": "int"},
    requires=["0 <= col and col < len(self._column_lengths)", ROWS_OK,
              # the rows are lists of their own (not the list of column widths)
              "all(self._cell_lengths[i] is not self._column_lengths for i in range(len(self._cell_lengths)))"],
    ensures=[
        # C14: every column has the same width in every row - the width of a column is that of its widest cell, so padding a
        # cell to the column width never needs a negative amount
        "all(self._cell_lengths[i][col] <= self._column_lengths[col] for i in range(len(self._cell_lengths)))",
        "self._column_lengths[col] >= 0",
        # ... and it is attained (or the column is empty / all its cells are): the column is not wider than needed
        "self._column_lengths[col] == 0 or any(self._cell_lengths[i][col] == self._column_lengths[col] "
        "for i in range(len(self._cell_lengths)))",
        "len(self._column_lengths) == old(len(self._column_lengths))",
    ],
    modifies=["items(self._column_lengths)"],
)
R.loop(
    RCL, 0,
    invariants=[
        "0 <= col and col < len(self._column_lengths)",
        "len(self._column_lengths) == old(len(self._column_lengths))",
        "all(self._cell_lengths[j][col] <= self._column_lengths[col] for j in range(_i))",
        "self._column_lengths[col] >= 0",
        "self._column_lengths[col] == 0 or any(self._cell_lengths[j][col] == self._column_lengths[col] for j in range(_i))",
    ],
    modifies=["items(self._column_lengths)"],
    fingerprint="(i, row) in enumerate",
)

# (A contract on _wrap_column - "after wrapping, no cell of the column is wider than the column", with textwrap's line bound
#  as an axiom over an uninterpreted wrapped(text, width) - was written and proved, but its preservation obligation took
#  90 s under load: too slow to be a stable part of the checks.  That clause of C14 stays with the bounded tier.)
