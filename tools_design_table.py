#!/usr/bin/env python3
"""Regenerate the table of DESIGN.md section 0.3 from /verif/evidence/*.json (between the TABLE03 markers)."""
import glob
import json
import os
import re

ROOT = os.path.dirname(os.path.abspath(__file__))
kf = json.load(open(os.path.join(ROOT, "known_findings.json")))
kf = kf if isinstance(kf, list) else kf.get("findings", kf.get("entries", []))
open_f = {}
for e in kf:
    if e.get("status") == "finding":
        open_f.setdefault(e["property"], []).append(e.get("signature") or e.get("id"))
rows = []
for f in sorted(glob.glob(os.path.join(ROOT, "evidence", "C*.json"))):
    e = json.load(open(f))
    c = e["coverage"]
    fns = c.get("functions_under_contract") or []
    names = []
    for x in fns:
        n = x if isinstance(x, str) else (x.get("function") or x.get("target") or "")
        n = n.split(":")[-1]
        if n and n not in names:
            names.append(n)
    short = ", ".join(names[:9]) + (" … (%d in all)" % len(names) if len(names) > 9 else "")
    und = c.get("undecided")
    und_n = len(und) if isinstance(und, list) else (und or 0)
    rows.append("| %s | %s | %s/%s%s | %s | %s | %s |" % (
        e["property_id"], e["level"], c.get("discharged"), c.get("obligations"),
        (" (%d undecided)" % und_n) if und_n else "", short or "–",
        "{:,}".format(c.get("evaluations") or 0).replace(",", " "),
        "; ".join(sorted(set(open_f.get(e["property_id"], [])))) or "–"))
table = ("| id | level | P (discharged/generated) | functions under contract | bounded evaluations (quick) | open known findings (signatures) |\n"
         "|---|---|---|---|---|---|\n" + "\n".join(rows))
p = os.path.join(ROOT, "DESIGN.md")
s = open(p).read()
if "<!-- TABLE03 begin -->" in s:
    s = re.sub(r"<!-- TABLE03 begin -->.*?<!-- TABLE03 end -->", "<!-- TABLE03 begin -->\n" + table + "\n<!-- TABLE03 end -->", s, flags=re.S)
    open(p, "w").write(s)
    print("table updated (%d rows)" % len(rows))
else:
    print(table)
