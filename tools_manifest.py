#!/usr/bin/env python3
"""Regenerates MANIFEST.json from the spec modules (level, notes) -- run after adding a property."""
import importlib
import json
import os
import sys

ROOT = os.path.dirname(os.path.abspath(__file__))
sys.path.insert(0, ROOT)
sys.path.insert(0, "/repo/src")

PROPS = ["C%02d" % i for i in range(1, 21)]
PENDING_REASON = "check under construction in this round (see DESIGN.md section 5 for the plan); not claimed yet"


def main():
    checks = []
    na = []
    for p in PROPS:
        path = os.path.join(ROOT, "specs", p + ".py")
        if not os.path.exists(path):
            na.append({"property_id": p, "reason": PENDING_REASON})
            continue
        spec = importlib.import_module("specs." + p)
        if getattr(spec, "NOT_APPLICABLE", None):
            na.append({"property_id": p, "reason": spec.NOT_APPLICABLE})
            continue
        checks.append({
            "property_id": p,
            "quick_cmd": "./check %s --tier quick" % p,
            "thorough_cmd": "./check %s --tier thorough" % p,
            "evidence_file": "/verif/evidence/%s.json" % p,
            "replay_cmd_template": "./check %s --replay {path}" % p,
            "engine": "pyvc",
            "level_claimed": {
                "category": spec.LEVEL,
                "text": spec.LEVEL_TEXT if hasattr(spec, "LEVEL_TEXT") else spec.EXPLANATION,
                "design_ref": "DESIGN.md section 5, " + p,
            },
            "level_note": getattr(spec, "LEVEL_NOTE", "trusted base: pyvc VC generator + z3/cvc5; declared object shapes; "
                                  "assumed contracts of external collaborators listed in the evidence"),
            "technique": getattr(spec, "TECHNIQUE", "contract-based deductive verification of the real source "
                                 "(sidecar contracts, python-AST -> z3 verification conditions, modular per function) "
                                 "+ bounded run-time contract checks as labelled stand-in"),
        })
    m = {
        "version": 1,
        "setup_cmd": "./setup.sh",
        "hooks": {
            "guard": "CLIKIT_VERIF",
            "enable": "none needed: contracts are sidecar files, run-time wrappers are installed by monkey-patching inside "
                      "the checker process; CLIKIT_REPO=<dir> points the checks at another tree",
            "baseline_off_cmd": "cd /repo && /venv/bin/python -m pytest -ra -q -p no:cacheprovider --timeout=900 "
                                "--continue-on-collection-errors",
            "source_commits": [],
            "add_only": True,
        },
        "engines": [{
            "name": "pyvc",
            "path": "/verif/pyvc",
            "serves_properties": [c["property_id"] for c in checks],
            "kind_free_text": "verification-condition generator for a Python subset (re-reads /repo/src on every run), "
                              "z3 5.1 + cvc5 back ends, counterexample replay on the real code, bounded run-time contract tier",
        }],
        "checks": checks,
        "not_applicable": na,
        "notes": "exit 0 held / 1 violation / 3 checker error; fix: commits in /repo are recorded in known_findings.json",
    }
    with open(os.path.join(ROOT, "MANIFEST.json"), "w") as f:
        json.dump(m, f, indent=1)
    print("MANIFEST: %d checks, %d not applicable" % (len(checks), len(na)))


if __name__ == "__main__":
    main()
