#!/usr/bin/env python3
"""Mechanical mutation campaign (development aid): small syntactic changes in the files a property is anchored in, kept
only if the pinned test suite still passes, then run against the property's quick check in a scratch worktree.

usage: tools_mutate.py <Cxx> [--n 30] [--seed 1] [--jobs 4] [--out DIR]
Survivors (suite green, check exit 0) are written to <out>/<Cxx>/<k>.diff for manual triage: many are equivalent mutants or
outside the property.  Nothing touches /repo.
"""
import ast
import json
import os
import random
import subprocess
import sys
import tempfile
from concurrent.futures import ThreadPoolExecutor

ROOT = os.path.dirname(os.path.abspath(__file__))

CMP = {ast.Lt: "<=", ast.LtE: "<", ast.Gt: ">=", ast.GtE: ">", ast.Eq: "!=", ast.NotEq: "==", ast.Is: "is not",
       ast.IsNot: "is", ast.In: "not in", ast.NotIn: "in"}


def sh(cmd, **kw):
    return subprocess.run(cmd, shell=True, capture_output=True, text=True, **kw)


def seg(src_lines, node):
    """(start offset, end offset) of a node in the file text"""
    def off(l, c):
        return sum(len(x) for x in src_lines[: l - 1]) + len(src_lines[l - 1].encode("utf-8")[:c].decode("utf-8", "ignore"))
    return off(node.lineno, node.col_offset), off(node.end_lineno, node.end_col_offset)


def mutants_of(path, rel):
    text = open(path, encoding="utf-8").read()
    try:
        tree = ast.parse(text)
    except SyntaxError:
        return []
    lines = text.splitlines(True)
    out = []

    def add(node, new, what):
        a, b = seg(lines, node)
        if text[a:b] == new:
            return
        out.append({"file": rel, "line": node.lineno, "what": what, "a": a, "b": b, "new": new, "old": text[a:b]})

    funcs = [n for n in ast.walk(tree) if isinstance(n, (ast.FunctionDef,))]
    for fn in funcs:
        body = fn.body
        if body and isinstance(body[0], ast.Expr) and isinstance(getattr(body[0], "value", None), ast.Constant) \
                and isinstance(body[0].value.value, str):
            body = body[1:]
        for top in body:
            for n in ast.walk(top):
                if isinstance(n, ast.Compare) and len(n.ops) == 1 and type(n.ops[0]) in CMP:
                    l = ast.get_source_segment(text, n.left)
                    r = ast.get_source_segment(text, n.comparators[0])
                    if l and r:
                        add(n, "%s %s %s" % (l, CMP[type(n.ops[0])], r), "compare")
                elif isinstance(n, ast.BoolOp) and len(n.values) == 2:
                    l = ast.get_source_segment(text, n.values[0])
                    r = ast.get_source_segment(text, n.values[1])
                    if l and r:
                        add(n, "(%s) %s (%s)" % (l, "or" if isinstance(n.op, ast.And) else "and", r), "boolop")
                elif isinstance(n, ast.UnaryOp) and isinstance(n.op, ast.Not):
                    o = ast.get_source_segment(text, n.operand)
                    if o:
                        add(n, "(%s)" % o, "drop-not")
                elif isinstance(n, ast.Constant) and isinstance(n.value, bool):
                    add(n, "False" if n.value else "True", "bool-const")
                elif isinstance(n, ast.Constant) and isinstance(n.value, int) and not isinstance(n.value, bool) and abs(n.value) <= 4:
                    add(n, str(n.value + 1), "int+1")
                    if n.value > 0:
                        add(n, str(n.value - 1), "int-1")
                elif isinstance(n, ast.BinOp) and isinstance(n.op, (ast.Add, ast.Sub)):
                    l = ast.get_source_segment(text, n.left)
                    r = ast.get_source_segment(text, n.right)
                    if l and r and not isinstance(n.left, ast.Constant) or (l and r and not isinstance(getattr(n.left, "value", 0), str)):
                        if l and r:
                            add(n, "%s %s %s" % (l, "-" if isinstance(n.op, ast.Add) else "+", r), "plus-minus")
                elif isinstance(n, ast.If):
                    t = ast.get_source_segment(text, n.test)
                    if t:
                        add(n.test, "not (%s)" % t, "negate-if")
                elif isinstance(n, ast.Expr) and isinstance(n.value, ast.Call):
                    add(n, "pass", "drop-call")
                elif isinstance(n, ast.Break):
                    add(n, "continue", "break-continue")
                elif isinstance(n, ast.Continue):
                    add(n, "break", "continue-break")
    return out


def anchor_files(prop):
    for l in open(os.path.join(ROOT, "properties.jsonl")):
        p = json.loads(l)
        if p["id"] == prop:
            return [f for f in p["anchors"]["files"] if f.endswith(".py")]
    raise SystemExit("unknown property")


def run_one(prop, m, idx, outdir):
    wt = tempfile.mkdtemp(prefix="wt_mut_", dir="/tmp")
    os.rmdir(wt)
    r = sh("git -C /repo worktree add -q %s HEAD" % wt)
    if r.returncode:
        return (idx, "worktree-error", r.stderr[:200])
    try:
        path = os.path.join(wt, m["file"])
        text = open(path, encoding="utf-8").read()
        text = text[: m["a"]] + m["new"] + text[m["b"]:]
        open(path, "w", encoding="utf-8").write(text)
        c = sh("/venv/bin/python -m py_compile %s" % path)
        if c.returncode:
            return (idx, "does-not-compile", "")
        t = sh("cd %s && PYTHONDONTWRITEBYTECODE=1 PYTHONPATH=%s/src timeout 300 /venv/bin/python -m pytest -q -x -p no:cacheprovider "
               "--deselect tests/io/output_stream/test_stream_output_stream.py::test_supports_utf8_with_encoding tests 2>&1 | tail -1" % (wt, wt))
        line = t.stdout.strip()
        if "passed" not in line or "failed" in line or "error" in line:
            return (idx, "killed-by-suite", line[:80])
        k = sh("cd %s && CLIKIT_REPO=%s timeout 900 ./check %s --tier quick" % (ROOT, wt, prop))
        diff = sh("git -C %s diff" % wt).stdout
        if k.returncode == 1:
            caught = [l.split(":", 1)[1].strip() for l in k.stdout.splitlines() if l.startswith("   obligation/check")]
            return (idx, "caught", ",".join(caught[:3]))
        if k.returncode == 0:
            os.makedirs(os.path.join(outdir, prop), exist_ok=True)
            open(os.path.join(outdir, prop, "%03d.diff" % idx), "w").write(
                "# %s line %d (%s)\n" % (m["file"], m["line"], m["what"]) + diff)
            und = [l for l in k.stdout.splitlines() if "undecided" in l and "target" in l]
            return (idx, "SURVIVED", "%s:%d %s%s" % (m["file"].split("/")[-1], m["line"], m["what"], "  [target undecided]" if und else ""))
        os.makedirs(os.path.join(outdir, prop), exist_ok=True)
        open(os.path.join(outdir, prop, "%03d.exit%d.txt" % (idx, k.returncode)), "w").write(
            "# %s line %d (%s)\n" % (m["file"], m["line"], m["what"]) + diff + "\n" + k.stdout + k.stderr)
        return (idx, "checker-exit-%d" % k.returncode, "%s:%d %s" % (m["file"].split("/")[-1], m["line"], m["what"]))
    finally:
        sh("git -C /repo worktree remove --force %s" % wt)


def main():
    prop = sys.argv[1]
    args = sys.argv[2:]

    def opt(name, default):
        return type(default)(args[args.index(name) + 1]) if name in args else default
    n, seed, jobs, outdir = opt("--n", 30), opt("--seed", 1), opt("--jobs", 4), opt("--out", "/tmp/mutants")
    ms = []
    for rel in anchor_files(prop):
        p = os.path.join("/repo", rel)
        if os.path.exists(p):
            ms += mutants_of(p, rel)
    rng = random.Random(seed)
    rng.shuffle(ms)
    ms = ms[:n]
    print("%s: %d mutants sampled" % (prop, len(ms)), flush=True)
    res = {}
    with ThreadPoolExecutor(jobs) as ex:
        for idx, verdict, info in ex.map(lambda im: run_one(prop, im[1], im[0], outdir), list(enumerate(ms))):
            res[verdict] = res.get(verdict, 0) + 1
            print("%s #%03d %-16s %s" % (prop, idx, verdict, info), flush=True)
    print("%s summary: %s" % (prop, res), flush=True)


if __name__ == "__main__":
    main()
