#!/usr/bin/env python3
"""Second stage of the mutation campaign (development aid): every survivor of tools_mutate.py was run against ONE property's
check only, although its file is anchored in several properties.  This tool runs each survivor against the quick checks of
all OTHER properties anchored in the mutated file and lists the mutants no check notices at all.

usage: tools_mutate_cross.py [--dir /tmp/mutants] [--jobs 4] [--only Cxx,...]
Writes <dir>/cross.txt (one line per survivor: caught-by list or UNNOTICED).  Nothing touches /repo.
"""
import glob
import json
import os
import subprocess
import sys
import tempfile
from concurrent.futures import ThreadPoolExecutor

ROOT = os.path.dirname(os.path.abspath(__file__))


def sh(cmd, **kw):
    return subprocess.run(cmd, shell=True, capture_output=True, text=True, **kw)


def anchors():
    out = {}
    for l in open(os.path.join(ROOT, "properties.jsonl")):
        p = json.loads(l)
        for f in p["anchors"]["files"]:
            out.setdefault(f, []).append(p["id"])
    return out


def run_one(job):
    prop, path, others = job
    head = open(path).readline().strip()
    wt = tempfile.mkdtemp(prefix="wt_mx_", dir="/tmp")
    os.rmdir(wt)
    r = sh("git -C /repo worktree add -q %s HEAD" % wt)
    if r.returncode:
        return (prop, path, head, "worktree-error", [])
    try:
        a = sh("git -C %s apply %s" % (wt, path))
        if a.returncode:
            return (prop, path, head, "does-not-apply", [])
        caught = []
        odd = []
        for o in others:
            k = sh("cd %s && CLIKIT_REPO=%s timeout 900 ./check %s --tier quick" % (ROOT, wt, o))
            if k.returncode == 1:
                names = [l.split(":", 1)[1].strip() for l in k.stdout.splitlines() if l.startswith("   obligation/check")]
                caught.append("%s(%s)" % (o, ",".join(names[:2])))
            elif k.returncode != 0:
                odd.append("%s:exit-%d" % (o, k.returncode))
        return (prop, path, head, "caught" if caught else "UNNOTICED", caught + odd)
    finally:
        sh("git -C /repo worktree remove --force %s" % wt)


def main():
    args = sys.argv[1:]

    def opt(name, default):
        return type(default)(args[args.index(name) + 1]) if name in args else default
    d, jobs, only = opt("--dir", "/tmp/mutants"), opt("--jobs", 4), opt("--only", "")
    anc = anchors()
    groups = {}
    for path in sorted(glob.glob(os.path.join(d, "C??", "*.diff"))):
        prop = os.path.basename(os.path.dirname(path))
        if only and prop not in only.split(","):
            continue
        lines = open(path).read().split("\n")
        body = "\n".join(l for l in lines[1:] if l[:1] in "+-" and not l.startswith(("+++", "---")))
        rel = lines[0].split()[1]
        g = groups.setdefault((lines[0], body), {"props": [], "path": path, "rel": rel})
        g["props"].append(prop)
    work = []
    for g in groups.values():
        others = [p for p in anc.get(g["rel"], []) if p not in g["props"]]
        work.append(("+".join(sorted(set(g["props"]))), g["path"], others))
    print("%d survivors" % len(work), flush=True)
    with open(os.path.join(d, "cross.txt"), "a") as out:
        with ThreadPoolExecutor(jobs) as ex:
            for prop, path, head, verdict, info in ex.map(run_one, work):
                line = "%s %s %-10s %s | %s" % (prop, os.path.basename(path), verdict, " ".join(info), head)
                print(line, flush=True)
                out.write(line + "\n")
                out.flush()


if __name__ == "__main__":
    main()
