#!/usr/bin/env python3
"""Validate seeded property-breaking changes and run the checks against them.

usage: tools_seeded.py ingest <deliver_dir> ...     copy a delivered change to /verif/seeded/<id>/ after confirming it
       tools_seeded.py run [<id> ...] [--tier T]    run the property's check against each kept change (scratch worktree)

A change is kept only if, in a scratch worktree of /repo HEAD: the patch applies, the pinned suite is as green as the
baseline (396 passed), demo.py FAILs with the change and PASSes without it.  Nothing is ever applied to /repo itself.
"""
import json
import os
import shutil
import subprocess
import sys
import tempfile

ROOT = os.path.dirname(os.path.abspath(__file__))
SEEDED = os.path.join(ROOT, "seeded")


def sh(cmd, **kw):
    return subprocess.run(cmd, shell=True, capture_output=True, text=True, **kw)


class Worktree:
    def __enter__(self):
        self.dir = tempfile.mkdtemp(prefix="wt_seed_", dir="/tmp")
        os.rmdir(self.dir)
        r = sh("git -C /repo worktree add -q %s HEAD" % self.dir)
        if r.returncode:
            raise RuntimeError(r.stderr)
        return self.dir

    def __exit__(self, *a):
        sh("git -C /repo worktree remove --force %s" % self.dir)


def demo(wt, path):
    r = sh("PYTHONDONTWRITEBYTECODE=1 PYTHONPATH=%s/src /venv/bin/python %s" % (wt, path), timeout=300)
    return r.returncode, (r.stdout + r.stderr)[-600:]


def suite(wt):
    r = sh("cd %s && PYTHONDONTWRITEBYTECODE=1 PYTHONPATH=%s/src /venv/bin/python -m pytest -q -p no:cacheprovider --timeout=900 tests 2>&1 | tail -1" % (wt, wt),
           timeout=1200)
    return r.stdout.strip()


def ingest(d):
    d = d.rstrip("/")
    name = os.path.basename(d)
    meta = json.load(open(os.path.join(d, "meta.json")))
    patch = os.path.join(d, "patch.diff")
    with Worktree() as wt:
        rc0, out0 = demo(wt, os.path.join(d, "demo.py"))
        r = sh("git -C %s apply %s" % (wt, patch))
        if r.returncode:
            print(name, "REJECTED: patch does not apply:", r.stderr[:300])
            return False
        s = suite(wt)
        rc1, out1 = demo(wt, os.path.join(d, "demo.py"))
    ok = rc0 == 0 and rc1 != 0 and "396 passed" in s and s.startswith("1 failed")
    print(name, "clean demo rc=%d, mutated demo rc=%d, suite: %s -> %s" % (rc0, rc1, s, "KEPT" if ok else "REJECTED"))
    if not ok:
        return False
    dst = os.path.join(SEEDED, name)
    os.makedirs(dst, exist_ok=True)
    shutil.copy(patch, os.path.join(dst, "patch.diff"))
    shutil.copy(os.path.join(d, "demo.py"), os.path.join(dst, "demo.py"))
    meta.update({
        "id": name,
        "confirmed": {
            "how": "scratch worktree of /repo HEAD (git -C /repo rev-parse HEAD below); git apply patch.diff; pinned pytest suite; "
                   "demo.py with PYTHONPATH=<worktree>/src",
            "repo_head": sh("git -C /repo rev-parse --short HEAD").stdout.strip(),
            "suite_with_change": s,
            "demo_without_change": "exit %d" % rc0,
            "demo_with_change": "exit %d: %s" % (rc1, out1.strip()[-300:]),
        },
    })
    json.dump(meta, open(os.path.join(dst, "meta.json"), "w"), indent=1)
    return True


def run(ids, tier):
    results = {}
    for name in ids:
        d = os.path.join(SEEDED, name)
        meta = json.load(open(os.path.join(d, "meta.json")))
        prop = meta["property"]
        if meta.get("obsolete"):
            print(name, "obsolete (the code it changed no longer exists): skipped")
            results[name] = "obsolete"
            continue
        with Worktree() as wt:
            r = sh("git -C %s apply %s" % (wt, os.path.join(d, "patch.diff")))
            if r.returncode:
                print(name, "patch no longer applies:", r.stderr[:200])
                results[name] = "patch-does-not-apply"
                continue
            r = sh("cd %s && CLIKIT_REPO=%s ./check %s --tier %s -v" % (ROOT, wt, prop, tier), timeout=7200)
        lines = [l for l in r.stdout.splitlines() if l.startswith("VIOLATION") or l.startswith("   obligation/check") or
                 l.startswith("CHECKER-ERROR")]
        caught = [l.split(":", 1)[1].strip() for l in lines if l.startswith("   obligation/check")]
        verdict = "caught" if r.returncode == 1 else ("checker-error" if r.returncode == 3 else "MISSED")
        print("%-10s %s tier=%s exit=%d %s %s" % (name, prop, tier, r.returncode, verdict, caught[:6]))
        meta.setdefault("checks", {})[tier] = {"exit": r.returncode, "verdict": verdict, "caught_by": caught,
                                               "summary": [l for l in r.stdout.splitlines() if l.startswith(prop + " tier")][-1:]}
        json.dump(meta, open(os.path.join(d, "meta.json"), "w"), indent=1)
        results[name] = verdict
    return results


def main():
    if len(sys.argv) < 2:
        print(__doc__)
        return 2
    if sys.argv[1] == "ingest":
        for d in sys.argv[2:]:
            ingest(d)
        return 0
    if sys.argv[1] == "run":
        args = sys.argv[2:]
        tier = "quick"
        if "--tier" in args:
            i = args.index("--tier")
            tier = args[i + 1]
            del args[i:i + 2]
        ids = args or sorted(os.listdir(SEEDED))
        res = run(ids, tier)
        missed = [k for k, v in res.items() if v not in ("caught", "obsolete")]
        print("missed / not caught:", missed)
        return 0
    return 2


if __name__ == "__main__":
    sys.exit(main())
