#!/usr/bin/env python3
"""Record the outcome lines of a `tools_seeded.py run` log (e.g. of a vp run) in seeded/<id>/meta.json.
usage: tools_seeded_log.py <log> [<label>]"""
import ast
import json
import os
import re
import sys

ROOT = os.path.dirname(os.path.abspath(__file__))
log = sys.argv[1]
label = sys.argv[2] if len(sys.argv) > 2 else "latest"
pat = re.compile(r"^(\S+)\s+(C\d\d) tier=(\w+) exit=(-?\d+) (\S+) (\[.*\])\s*$")
n = 0
for line in open(log, errors="replace"):
    m = pat.match(line)
    if not m:
        continue
    name, prop, tier, ex, verdict, caught = m.groups()
    p = os.path.join(ROOT, "seeded", name, "meta.json")
    if not os.path.exists(p):
        continue
    meta = json.load(open(p))
    meta.setdefault("checks", {})[tier] = {"exit": int(ex), "verdict": verdict, "caught_by": ast.literal_eval(caught), "run": label}
    json.dump(meta, open(p, "w"), indent=1)
    n += 1
print("recorded", n)
