#!/usr/bin/env python3
"""Cheap consistency check before a commit: every spec imports, MANIFEST and evidence files validate, files exist."""
import glob
import importlib
import json
import os
import sys

ROOT = os.path.dirname(os.path.abspath(__file__))
sys.path.insert(0, ROOT)
bad = []
for i in range(1, 21):
    p = "C%02d" % i
    try:
        importlib.import_module("specs." + p)
    except Exception as e:  # noqa
        bad.append("specs.%s does not import: %r" % (p, e))
try:
    import jsonschema
    m = json.load(open(os.path.join(ROOT, "MANIFEST.json")))
    jsonschema.validate(m, json.load(open("/root/.vp/MANIFEST.schema.json")))
    es = json.load(open("/root/.vp/EVIDENCE.schema.json"))
    ids = set()
    for c in m["checks"]:
        ids.add(c["property_id"])
        if not os.path.exists(c["evidence_file"]):
            bad.append("missing evidence file %s" % c["evidence_file"])
        else:
            e = json.load(open(c["evidence_file"]))
            jsonschema.validate(e, es)
            if e.get("tier") != "quick":
                bad.append("%s: committed evidence is of tier %s" % (c["property_id"], e.get("tier")))
            und = e.get("coverage", {}).get("undecided") or []
            if und:
                bad.append("%s: committed evidence lists %d undecided entries (stale ledger? rerun after --relock)" % (c["property_id"], len(und)))
            if e.get("violations") or e.get("checker_errors"):
                bad.append("%s: evidence records violations / checker errors" % c["property_id"])
    na = set(x["property_id"] if isinstance(x, dict) else x for x in m.get("not_applicable", []))
    allp = set(json.loads(l)["id"] for l in open(os.path.join(ROOT, "properties.jsonl")))
    if ids | na != allp:
        bad.append("MANIFEST does not cover %s" % sorted(allp - ids - na))
    json.load(open(os.path.join(ROOT, "known_findings.json")))
    json.load(open(os.path.join(ROOT, "obligations.lock.json")))
except Exception as e:  # noqa
    bad.append("manifest / evidence: %r" % (e,))
for b in bad:
    print("SELFCHECK:", b)
print("selfcheck", "FAILED" if bad else "ok")
sys.exit(1 if bad else 0)
